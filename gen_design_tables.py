#!/usr/bin/env python3
"""Refreshes the generated regions of DESIGN.md (between <!-- BEGIN:x --> / <!-- END:x --> markers):
   spaces  - the spaces each check actually enumerated, from evidence/<id>.json
   seeded  - the seeded changes and which check caught them, from seeded/*/meta.json
   matrix  - seeded/MATRIX.md if present"""
import json, glob, re, subprocess, os
os.chdir("/verif")
def region(text, name, body):
    pat = re.compile(r"(<!-- BEGIN:%s -->\n)(.*?)(<!-- END:%s -->)" % (name, name), re.S)
    assert pat.search(text), name
    return pat.sub(lambda m: m.group(1) + body + "\n" + m.group(3), text)
d = open("DESIGN.md").read()
rows = ["| check | tier | profiles | space (as named by the run) | distinct inputs / states | real-code calls | wall s |", "|---|---|---|---|---|---|---|"]
for f in sorted(glob.glob("evidence/C*.json")):
    e = json.load(open(f)); c = e["coverage"]
    for s in c.get("spaces", []):
        rows.append(f"| {e['property_id']} | {e['tier']} | {'+'.join(c.get('build_profiles', []))} | {s['name']} | {s['cases']:,} | {s['calls']:,} | {s['wall_s']:.1f} |")
    rows.append(f"| **{e['property_id']}** | | | **total** | **{c['states']:,}** | **{c['transitions']:,}** | **{e['wall_s']:.1f}** |")
d = region(d, "spaces", "\n".join(rows))
d = region(d, "seeded", subprocess.run(["python3", "seeded/table.py"], capture_output=True, text=True).stdout.strip())
if os.path.exists("seeded/MATRIX.md"):
    d = region(d, "matrix", open("seeded/MATRIX.md").read().strip())
open("DESIGN.md", "w").write(d)
print("DESIGN.md regions refreshed")
