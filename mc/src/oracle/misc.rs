//! Small reference models: Chen formula (integer half-points), the two-character card-token parser, and a
//! hand-rolled whitespace tokenizer.
use super::cards::Card;

/// high-card points in half-points: ace 10, king 8, queen 7, jack 6, otherwise half the pip value
pub fn chen_points_x2(rank: u8) -> i32 {
    match rank {
        12 => 20,
        11 => 16,
        10 => 14,
        9 => 12,
        r => r as i32 + 2, // pip value (rank + 2) / 2, in half-points
    }
}

/// Bill Chen's formula, computed in half-points, rounded half-up.
pub fn chen(c1: Card, c2: Card) -> i32 {
    let hi = c1.rank().max(c2.rank());
    let lo = c1.rank().min(c2.rank());
    let mut s2;
    if hi == lo {
        s2 = (2 * chen_points_x2(hi)).max(10);
    } else {
        let gap = (hi - lo - 1) as i32;
        s2 = chen_points_x2(hi)
            - match gap {
                0 => 0,
                1 => 2,
                2 => 4,
                3 => 8,
                _ => 10,
            };
        // +1 for a non-pair with a gap under 2 below a queen (queen = rank 10)
        if gap < 2 && hi < 10 {
            s2 += 2;
        }
    }
    if c1.suit() == c2.suit() {
        s2 += 4;
    }
    (s2 + 1).div_euclid(2)
}

pub fn rank_of_symbol(c: char) -> Option<u8> {
    Some(match c {
        'A' | 'a' => 12,
        'K' | 'k' => 11,
        'Q' | 'q' => 10,
        'J' | 'j' => 9,
        'T' | 't' | '0' => 8,
        '9' => 7,
        '8' => 6,
        '7' => 5,
        '6' => 4,
        '5' => 3,
        '4' => 2,
        '3' => 1,
        '2' => 0,
        _ => return None,
    })
}
pub fn suit_of_symbol(c: char) -> Option<u8> {
    Some(match c {
        'S' | 's' | '♠' | '♤' => 3,
        'H' | 'h' | '♥' | '♡' => 2,
        'D' | 'd' | '♦' | '♢' => 1,
        'C' | 'c' | '♣' | '♧' => 0,
        _ => return None,
    })
}
pub const RANK_SYMBOLS: &str = "AaKkQqJjTt098765432";
pub const SUIT_SYMBOLS: &str = "SsHhDdCc♠♤♥♡♦♢♣♧";

/// A token is a card iff its first char is a rank symbol and its second a suit symbol.
pub fn parse_token(tok: &str) -> u32 {
    let mut it = tok.chars();
    match (it.next(), it.next()) {
        (Some(a), Some(b)) => match (rank_of_symbol(a), suit_of_symbol(b)) {
            (Some(r), Some(s)) => Card::new(r, s).word(),
            _ => 0,
        },
        _ => 0,
    }
}

/// Whitespace tokenizer written by hand on `char::is_whitespace` (deliberately not `split_whitespace`).
pub fn tokens(s: &str) -> Vec<String> {
    let mut out = Vec::new();
    let mut cur = String::new();
    for ch in s.chars() {
        if ch.is_whitespace() {
            if !cur.is_empty() {
                out.push(std::mem::take(&mut cur));
            }
        } else {
            cur.push(ch);
        }
    }
    if !cur.is_empty() {
        out.push(cur);
    }
    out
}

pub fn self_check() -> Result<(), String> {
    // textbook Chen values: AA 20, AKs 12, AKo 10, 72o -1, 55 5, 22 5, JTs 9, T9s 8? (T=5, +1, +2 = 8), 32s 1? etc.
    let c = |r: u8, s: u8| Card::new(r, s);
    let cases: [((u8, u8), (u8, u8), i32); 10] = [
        ((12, 3), (12, 2), 20),
        ((12, 3), (11, 3), 12),
        ((12, 3), (11, 2), 10),
        ((5, 3), (0, 2), -1),
        ((3, 3), (3, 2), 5),
        ((0, 3), (0, 2), 5),
        ((9, 3), (8, 3), 9),
        ((8, 1), (7, 1), 8),
        ((10, 0), (9, 1), 7),  // QJo: 7 - 0 = 7 (no bonus at queen)
        ((11, 0), (4, 0), 5),  // K6s: 8 - 5 + 2 = 5
    ];
    for (a, b, e) in cases {
        if chen(c(a.0, a.1), c(b.0, b.1)) != e {
            return Err(format!("chen({:?},{:?}) = {} expected {}", a, b, chen(c(a.0, a.1), c(b.0, b.1)), e));
        }
    }
    if parse_token("A♠") != Card::new(12, 3).word() || parse_token("0c") != Card::new(8, 0).word() || parse_token("A") != 0 || parse_token("1s") != 0 {
        return Err("parse_token".into());
    }
    if tokens(" a  b\tc\u{3000}d ") != vec!["a", "b", "c", "d"] {
        return Err("tokens".into());
    }
    Ok(())
}
