pub mod cards;
pub mod misc;
pub mod poker;
