//! Poker strength oracle written from the rules of poker, never from the crate's lookup tables.
//!
//! `classify` maps five ranks (+ flush flag) to a class key (bigger = stronger):
//!   (8 - category) << 20 | t0 << 16 | t1 << 12 | t2 << 8 | t3 << 4 | t4
//! with the tie-break ranks t ordered by (multiplicity desc, rank desc) and straights reduced to their high
//! card (the wheel is five-high). All 6,175 rank multisets (+1,287 flush variants) are classified, sorted
//! strongest-first and de-duplicated: 7,462 classes; the ordinal of a class is its 1-based position.
use super::cards::Card;

pub const SF: u8 = 0;
pub const QUADS: u8 = 1;
pub const FH: u8 = 2;
pub const FLUSH: u8 = 3;
pub const STRAIGHT: u8 = 4;
pub const TRIPS: u8 = 5;
pub const TWOPAIR: u8 = 6;
pub const PAIR: u8 = 7;
pub const HIGH: u8 = 8;
pub const CAT_NAME: [&str; 9] = ["StraightFlush", "FourOfAKind", "FullHouse", "Flush", "Straight", "ThreeOfAKind", "TwoPair", "Pair", "HighCard"];

/// number of distinct classes per category (textbook constants, used as a self-check)
pub const CLASSES_PER_CAT: [usize; 9] = [10, 156, 156, 1277, 10, 858, 858, 2860, 1277];
/// number of five-card hands per category
pub const HANDS5_PER_CAT: [u64; 9] = [40, 624, 3744, 5108, 10200, 54912, 123552, 1098240, 1302540];
/// number of six-card hands whose best five-card hand is of each category
pub const HANDS6_PER_CAT: [u64; 9] = [1844, 14664, 165984, 205792, 361620, 732160, 2532816, 9730740, 6612900];
/// number of seven-card hands whose best five-card hand is of each category
pub const HANDS7_PER_CAT: [u64; 9] = [41584, 224848, 3473184, 4047644, 6180020, 6461620, 31433400, 58627800, 23294460];

#[inline]
fn mk(cat: u8, t: [u8; 5]) -> u32 {
    ((8 - cat as u32) << 20) | (t[0] as u32) << 16 | (t[1] as u32) << 12 | (t[2] as u32) << 8 | (t[3] as u32) << 4 | t[4] as u32
}
#[inline]
pub fn key_cat(key: u32) -> u8 {
    8 - (key >> 20) as u8
}
#[inline]
pub fn key_ranks(key: u32) -> [u8; 5] {
    [(key >> 16 & 15) as u8, (key >> 12 & 15) as u8, (key >> 8 & 15) as u8, (key >> 4 & 15) as u8, (key & 15) as u8]
}

/// Class key of five ranks; `flush` = all five cards share a suit. Slow, obviously-correct form.
pub fn classify(ranks: [u8; 5], flush: bool) -> u32 {
    let mut cnt = [0u8; 13];
    for r in ranks {
        cnt[r as usize] += 1;
    }
    let mut groups: Vec<(u8, u8)> = (0..13u8).filter(|r| cnt[*r as usize] > 0).map(|r| (cnt[r as usize], r)).collect();
    groups.sort_by(|a, b| b.cmp(a));
    let shape: Vec<u8> = groups.iter().map(|g| g.0).collect();
    let mut t = [0u8; 5];
    for (i, g) in groups.iter().enumerate() {
        t[i] = g.1;
    }
    let cat;
    if shape == [1, 1, 1, 1, 1] {
        let hi = t[0];
        let lo = t[4];
        let straight_high = if hi - lo == 4 {
            Some(hi)
        } else if t == [12, 3, 2, 1, 0] {
            Some(3)
        } else {
            None
        };
        match (straight_high, flush) {
            (Some(h), true) => {
                cat = SF;
                t = [h, 0, 0, 0, 0];
            }
            (Some(h), false) => {
                cat = STRAIGHT;
                t = [h, 0, 0, 0, 0];
            }
            (None, true) => cat = FLUSH,
            (None, false) => cat = HIGH,
        }
    } else {
        assert!(!flush, "a flush has five distinct ranks");
        cat = match shape.as_slice() {
            [4, 1] => QUADS,
            [3, 2] => FH,
            [3, 1, 1] => TRIPS,
            [2, 2, 1] => TWOPAIR,
            [2, 1, 1, 1] => PAIR,
            _ => panic!("impossible rank shape"),
        };
    }
    mk(cat, t)
}

#[inline]
fn ms_index(mut r: [u8; 5]) -> usize {
    // insertion sort, ascending
    for i in 1..5 {
        let mut j = i;
        while j > 0 && r[j - 1] > r[j] {
            r.swap(j - 1, j);
            j -= 1;
        }
    }
    ((((r[0] as usize * 13 + r[1] as usize) * 13 + r[2] as usize) * 13 + r[3] as usize) * 13) + r[4] as usize
}

pub struct Oracle {
    /// class keys strongest first; `keys_desc[v - 1]` is the class with ordinal v
    pub keys_desc: Vec<u32>,
    /// number of five-card hands in each class (index = ordinal, [0] unused)
    pub class_size: Vec<u32>,
    ord_of_key: Vec<u16>,
    /// [multiset index * 2 + flush] -> ordinal (0 = impossible)
    fast_ord: Vec<u16>,
    fast_key: Vec<u32>,
}

impl Oracle {
    pub fn new() -> Result<Oracle, String> {
        let mut keys = Vec::new();
        for a in 0..13u8 {
            for b in a..13 {
                for c in b..13 {
                    for d in c..13 {
                        for e in d..13 {
                            if a == e {
                                continue; // five of a kind
                            }
                            let r = [a, b, c, d, e];
                            keys.push(classify(r, false));
                            if a < b && b < c && c < d && d < e {
                                keys.push(classify(r, true));
                            }
                        }
                    }
                }
            }
        }
        if keys.len() != 6175 + 1287 {
            return Err(format!("expected 7462 rank patterns, got {}", keys.len()));
        }
        keys.sort_unstable_by(|a, b| b.cmp(a));
        keys.dedup();
        if keys.len() != 7462 {
            return Err(format!("expected 7462 classes, got {}", keys.len()));
        }
        let per_cat: Vec<usize> = (0..9u8).map(|c| keys.iter().filter(|k| key_cat(**k) == c).count()).collect();
        if per_cat != CLASSES_PER_CAT {
            return Err(format!("classes per category {:?}", per_cat));
        }
        let mut ord_of_key = vec![0u16; 9 << 20];
        for (i, k) in keys.iter().enumerate() {
            ord_of_key[*k as usize] = (i + 1) as u16;
        }
        let mut fast_ord = vec![0u16; 13usize.pow(5) * 2];
        let mut fast_key = vec![0u32; 13usize.pow(5) * 2];
        let mut class_size = vec![0u32; 7463];
        for a in 0..13u8 {
            for b in a..13 {
                for c in b..13 {
                    for d in c..13 {
                        for e in d..13 {
                            if a == e {
                                continue;
                            }
                            let r = [a, b, c, d, e];
                            let i = ms_index(r);
                            let k = classify(r, false);
                            fast_ord[i * 2] = ord_of_key[k as usize];
                            fast_key[i * 2] = k;
                            // number of suit assignments: product over ranks of C(4, mult), minus the 4 flushes
                            let mut cnt = [0u32; 13];
                            for x in r {
                                cnt[x as usize] += 1;
                            }
                            let ways: u32 = cnt.iter().map(|m| [1u32, 4, 6, 4, 1][*m as usize]).product();
                            if a < b && b < c && c < d && d < e {
                                let kf = classify(r, true);
                                fast_ord[i * 2 + 1] = ord_of_key[kf as usize];
                                fast_key[i * 2 + 1] = kf;
                                class_size[ord_of_key[kf as usize] as usize] += 4;
                                class_size[ord_of_key[k as usize] as usize] += ways - 4;
                            } else {
                                class_size[ord_of_key[k as usize] as usize] += ways;
                            }
                        }
                    }
                }
            }
        }
        let total: u64 = class_size.iter().map(|x| *x as u64).sum();
        if total != 2_598_960 {
            return Err(format!("class sizes sum to {}", total));
        }
        for c in 0..9u8 {
            let s: u64 = (1..=7462).filter(|v| key_cat(keys[*v - 1]) == c).map(|v| class_size[v] as u64).sum();
            if s != HANDS5_PER_CAT[c as usize] {
                return Err(format!("category {} has {} hands", c, s));
            }
        }
        // anchors everybody knows
        let o = Oracle { keys_desc: keys, class_size, ord_of_key, fast_ord, fast_key };
        if o.ord_of(classify([12, 11, 10, 9, 8], true)) != 1 || o.ord_of(classify([5, 3, 2, 1, 0], false)) != 7462 || o.ord_of(classify([12, 12, 12, 12, 11], false)) != 11 {
            return Err("anchor ordinals".into());
        }
        Ok(o)
    }
    #[inline]
    pub fn ord_of(&self, key: u32) -> u16 {
        *self.ord_of_key.get(key as usize).unwrap_or(&0)
    }
    #[inline]
    pub fn key_of_ord(&self, v: u16) -> Option<u32> {
        if (1..=7462).contains(&v) {
            Some(self.keys_desc[v as usize - 1])
        } else {
            None
        }
    }
    #[inline]
    fn idx5(cards: &[Card; 5]) -> usize {
        let s = cards[0].suit();
        let flush = cards[1].suit() == s && cards[2].suit() == s && cards[3].suit() == s && cards[4].suit() == s;
        ms_index([cards[0].rank(), cards[1].rank(), cards[2].rank(), cards[3].rank(), cards[4].rank()]) * 2 + flush as usize
    }
    /// ordinal of five distinct cards (table-driven fast form; the table was filled by `classify`)
    #[inline]
    pub fn ord5(&self, cards: &[Card; 5]) -> u16 {
        self.fast_ord[Self::idx5(cards)]
    }
    #[inline]
    pub fn key5(&self, cards: &[Card; 5]) -> u32 {
        self.fast_key[Self::idx5(cards)]
    }
    /// best-of-n, way (a): minimum ordinal over all five-card subsets, own combination routine
    pub fn best_by_subsets(&self, cards: &[Card]) -> u16 {
        let n = cards.len();
        let mut best = u16::MAX;
        for a in 0..n {
            for b in a + 1..n {
                for c in b + 1..n {
                    for d in c + 1..n {
                        for e in d + 1..n {
                            let v = self.ord5(&[cards[a], cards[b], cards[c], cards[d], cards[e]]);
                            if v < best {
                                best = v;
                            }
                        }
                    }
                }
            }
        }
        best
    }
    /// best-of-n, way (b): direct rule evaluation, never enumerates subsets
    #[inline]
    pub fn best_by_rules(&self, cards: &[Card]) -> u16 {
        self.ord_of(best_key(cards))
    }
}

#[inline]
fn straight_high(m: u16) -> Option<u8> {
    let mut h = 12u8;
    while h >= 4 {
        let w = 0b11111u16 << (h - 4);
        if m & w == w {
            return Some(h);
        }
        h -= 1;
    }
    if m & 0b1_0000_0000_1111 == 0b1_0000_0000_1111 {
        return Some(3);
    }
    None
}
/// the n highest ranks present in mask m, descending, zero padded
#[inline]
fn top(mut m: u16, n: usize) -> [u8; 5] {
    let mut t = [0u8; 5];
    for slot in t.iter_mut().take(n) {
        if m == 0 {
            break;
        }
        let r = 15 - m.leading_zeros() as u8;
        *slot = r;
        m &= !(1 << r);
    }
    t
}
#[inline]
fn highest(m: u16) -> Option<u8> {
    if m == 0 {
        None
    } else {
        Some(15 - m.leading_zeros() as u8)
    }
}

/// Direct rule-based class key of the best hand in 5..=7 distinct cards.
pub fn best_key(cards: &[Card]) -> u32 {
    let mut cnt = [0u8; 13];
    let mut scount = [0u8; 4];
    let mut smask = [0u16; 4];
    let mut mask = 0u16;
    for c in cards {
        cnt[c.rank() as usize] += 1;
        scount[c.suit() as usize] += 1;
        smask[c.suit() as usize] |= 1 << c.rank();
        mask |= 1 << c.rank();
    }
    let (mut m4, mut m3, mut m2) = (0u16, 0u16, 0u16);
    for r in 0..13 {
        match cnt[r] {
            4 => m4 |= 1 << r,
            3 => m3 |= 1 << r,
            2 => m2 |= 1 << r,
            _ => {}
        }
    }
    let fsuit = (0..4).find(|s| scount[*s] >= 5);
    if let Some(s) = fsuit {
        if let Some(h) = straight_high(smask[s]) {
            return mk(SF, [h, 0, 0, 0, 0]);
        }
    }
    if let Some(q) = highest(m4) {
        let k = top(mask & !(1 << q), 1);
        return mk(QUADS, [q, k[0], 0, 0, 0]);
    }
    if let Some(t) = highest(m3) {
        // pair part: the best other rank held at least twice
        if let Some(p) = highest((m3 | m2) & !(1 << t)) {
            return mk(FH, [t, p, 0, 0, 0]);
        }
    }
    if let Some(s) = fsuit {
        return mk(FLUSH, top(smask[s], 5));
    }
    if let Some(h) = straight_high(mask) {
        return mk(STRAIGHT, [h, 0, 0, 0, 0]);
    }
    if let Some(t) = highest(m3) {
        let k = top(mask & !(1 << t), 2);
        return mk(TRIPS, [t, k[0], k[1], 0, 0]);
    }
    if m2.count_ones() >= 2 {
        let p = top(m2, 2);
        let k = top(mask & !(1 << p[0]) & !(1 << p[1]), 1);
        return mk(TWOPAIR, [p[0], p[1], k[0], 0, 0]);
    }
    if let Some(p) = highest(m2) {
        let k = top(mask & !(1 << p), 3);
        return mk(PAIR, [p, k[0], k[1], k[2], 0]);
    }
    mk(HIGH, top(mask, 5))
}

pub const RANK_PLURAL: [&str; 13] = ["Deuces", "Treys", "Fours", "Fives", "Sixes", "Sevens", "Eights", "Nines", "Tens", "Jacks", "Queens", "Kings", "Aces"];
pub const RANK_SINGULAR: [&str; 13] = ["Deuce", "Trey", "Four", "Five", "Six", "Seven", "Eight", "Nine", "Ten", "Jack", "Queen", "King", "Ace"];

/// Debug text the crate's class enumeration should print for a class key; generated from the published
/// vocabulary, not copied from the crate's 310-arm match.
pub fn class_text(key: u32) -> String {
    let r = key_ranks(key);
    let s = |i: usize| RANK_SINGULAR[r[i] as usize];
    let p = |i: usize| RANK_PLURAL[r[i] as usize];
    match key_cat(key) {
        SF => {
            if r[0] == 12 {
                "RoyalFlush".into()
            } else {
                format!("{}HighStraightFlush", s(0))
            }
        }
        QUADS => format!("Four{}", p(0)),
        FH => format!("{}Over{}", p(0), p(1)),
        FLUSH => format!("{}HighFlush", s(0)),
        STRAIGHT => format!("{}HighStraight", s(0)),
        TRIPS => format!("Three{}", p(0)),
        TWOPAIR => format!("{}And{}", p(0), p(1)),
        PAIR => format!("PairOf{}", p(0)),
        _ => format!("{}High", s(0)),
    }
}
pub fn cat_text(key: u32) -> &'static str {
    CAT_NAME[key_cat(key) as usize]
}

/// Oracle self-check: (a) and (b) agree on a complete, deterministic family (all 5-, 6- and 7-card hands of a
/// 16-card sub-deck containing every category) - the full-universe agreement is checked inside C02's sweeps.
pub fn self_check(o: &Oracle) -> Result<u64, String> {
    let sub: Vec<Card> = [12u8, 3, 2, 1].iter().flat_map(|r| (0..4).map(move |s| Card::new(*r, s))).collect();
    let mut n = 0;
    for k in 5..=7usize {
        let mut err = None;
        super::super::engine::enumerate::combos_prefix(16, k, &[], &mut |idx| {
            let cs: Vec<Card> = idx.iter().map(|i| sub[*i]).collect();
            let a = o.best_by_subsets(&cs);
            let b = o.best_by_rules(&cs);
            n += 1;
            if a != b || a == 0 {
                err = Some(format!("best-of-{} (a)={} (b)={} on {:?}", k, a, b, cs));
            }
        });
        if let Some(e) = err {
            return Err(e);
        }
    }
    Ok(n)
}
