//! Card model written from the documented bit layout (README) and the deck-order statement; it never reads
//! the crate's constants or tables.
//!
//! rank 0..=12 = deuce..ace, suit 0..=3 = clubs, diamonds, hearts, spades.
//! word = prime[rank] | rank << 8 | 1 << (12 + suit) | 1 << (16 + rank)
//! deck order = spades, hearts, diamonds, clubs; each ace down to deuce; bit-set position = 51 - deck index.

pub const PRIMES: [u32; 13] = [2, 3, 5, 7, 11, 13, 17, 19, 23, 29, 31, 37, 41];
pub const RANK_CHARS: [char; 13] = ['2', '3', '4', '5', '6', '7', '8', '9', 'T', 'J', 'Q', 'K', 'A'];
pub const SUIT_GLYPHS: [char; 4] = ['♣', '♦', '♥', '♠'];
pub const SUIT_OUTLINES: [char; 4] = ['♧', '♢', '♡', '♤'];
pub const SUIT_LETTERS: [char; 4] = ['C', 'D', 'H', 'S'];

#[derive(Clone, Copy, Debug, PartialEq, Eq, Hash, PartialOrd, Ord)]
pub struct Card(pub u8); // rank * 4 + suit

impl Card {
    #[inline]
    pub const fn new(rank: u8, suit: u8) -> Card {
        Card(rank * 4 + suit)
    }
    #[inline]
    pub const fn rank(self) -> u8 {
        self.0 / 4
    }
    #[inline]
    pub const fn suit(self) -> u8 {
        self.0 % 4
    }
    #[inline]
    pub const fn word(self) -> u32 {
        let r = self.rank() as u32;
        let s = self.suit() as u32;
        PRIMES[r as usize] | (r << 8) | (1 << (12 + s)) | (1 << (16 + r))
    }
    /// position in deck order (ace of spades = 0 ... deuce of clubs = 51)
    #[inline]
    pub const fn deck_index(self) -> usize {
        (3 - self.suit() as usize) * 13 + (12 - self.rank() as usize)
    }
    #[inline]
    pub const fn from_deck_index(i: usize) -> Card {
        Card::new((12 - i % 13) as u8, (3 - i / 13) as u8)
    }
    /// the card's bit in the 64-bit set form
    #[inline]
    pub const fn bit(self) -> u64 {
        1u64 << (51 - self.deck_index())
    }
    pub fn name(self) -> String {
        format!("{}{}", RANK_CHARS[self.rank() as usize], SUIT_GLYPHS[self.suit() as usize])
    }
}

/// the 52 cards in deck order
pub fn deck() -> [Card; 52] {
    let mut d = [Card(0); 52];
    for (i, c) in d.iter_mut().enumerate() {
        *c = Card::from_deck_index(i);
    }
    d
}

/// the 52 card words in deck order
pub fn deck_words() -> [u32; 52] {
    let d = deck();
    let mut w = [0u32; 52];
    for i in 0..52 {
        w[i] = d[i].word();
    }
    w
}

/// Exact recogniser of the 52 layout words.
#[inline]
pub fn word_to_card(w: u32) -> Option<Card> {
    let r = (w >> 8) & 15;
    if r > 12 {
        return None;
    }
    let s = match (w >> 12) & 15 {
        1 => 0,
        2 => 1,
        4 => 2,
        8 => 3,
        _ => return None,
    };
    let c = Card::new(r as u8, s);
    if c.word() == w {
        Some(c)
    } else {
        None
    }
}

#[inline]
pub fn is_card_word(w: u32) -> bool {
    word_to_card(w).is_some()
}

/// Human-readable rendering of an arbitrary word (card name, "__" for blank, hex otherwise).
pub fn show_word(w: u32) -> String {
    match word_to_card(w) {
        Some(c) => c.name(),
        None if w == 0 => "__".to_string(),
        None => format!("{:#010x}", w),
    }
}
pub fn show_words(ws: &[u32]) -> String {
    ws.iter().map(|w| show_word(*w)).collect::<Vec<_>>().join(" ")
}

/// Σ53: index 0..=51 = deck order, 52 = blank.
#[inline]
pub fn sigma53(i: usize) -> u32 {
    if i < 52 {
        Card::from_deck_index(i).word()
    } else {
        0
    }
}

pub fn self_check() -> Result<(), String> {
    let d = deck();
    let mut seen = std::collections::BTreeSet::new();
    for (i, c) in d.iter().enumerate() {
        if c.deck_index() != i || Card::from_deck_index(i) != *c {
            return Err("deck index round trip".into());
        }
        if word_to_card(c.word()) != Some(*c) {
            return Err("word round trip".into());
        }
        if !seen.insert(c.word()) {
            return Err("duplicate word".into());
        }
        if c.bit().count_ones() != 1 || c.bit() >> 52 != 0 {
            return Err("bit".into());
        }
    }
    if d[0] != Card::new(12, 3) || d[12] != Card::new(0, 3) || d[13] != Card::new(12, 2) || d[51] != Card::new(0, 0) {
        return Err("deck order".into());
    }
    if d[0].word() != 0x1000_8C29 {
        // ace of spades per the layout: bit 28, spade bit 15, rank 12 << 8, prime 41
        return Err("ace of spades word".into());
    }
    if d[0].bit() != 1 << 51 || d[51].bit() != 1 {
        return Err("bit positions".into());
    }
    Ok(())
}
