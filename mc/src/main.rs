//! ckc-mc: bounded exhaustive exploration of ContractBridge/ckc-rs through its public API.
//!
//!   ckc-mc run <Cxx> <quick|thorough> [--child <out.json>]
//!   ckc-mc replay <violation.json>
//!   ckc-mc needs-relchk <Cxx> <quick|thorough>
//!   ckc-mc selfcheck
//!
//! Exit codes: 0 held on everything explored, 1 violation (a `VIOLATION property=<id> replay=<path>` line is
//! printed), 2 machinery problem (never a verdict).
mod engine;
mod oracle;
mod props;

use engine::evidence::{self, Case, Report, Tier, Verdict, Violation};
use engine::json::Json;
use engine::{enumerate, monitor};

fn parse_tier(s: &str) -> Tier {
    match s {
        "quick" => Tier::Quick,
        "thorough" => Tier::Thorough,
        _ => monitor::machinery_fail(&format!("unknown tier '{}'", s)),
    }
}

fn self_checks() -> (u64, u64, u64) {
    if let Err(e) = oracle::cards::self_check() {
        monitor::machinery_fail(&format!("card model self-check: {}", e));
    }
    if let Err(e) = oracle::misc::self_check() {
        monitor::machinery_fail(&format!("misc oracle self-check: {}", e));
    }
    let o = props::oracle();
    let n = match oracle::poker::self_check(o) {
        Ok(n) => n,
        Err(e) => monitor::machinery_fail(&format!("best-of-n oracles disagree: {}", e)),
    };
    let (p7, p6) = match enumerate::verify_covering() {
        Ok(x) => x,
        Err(e) => monitor::machinery_fail(&e),
    };
    (n, p7, p6)
}

fn main() {
    let args: Vec<String> = std::env::args().collect();
    monitor::install();
    monitor::install_logger();
    // the overflow-checked profile doubles as the "host with trace logging" configuration
    if cfg!(debug_assertions) {
        monitor::set_trace_logging(true);
    }
    match args.get(1).map(|s| s.as_str()) {
        Some("run") if args.len() >= 4 => run(&args),
        Some("replay") if args.len() >= 3 => replay(&args[2]),
        Some("needs-relchk") if args.len() >= 4 => {
            let tier = parse_tier(&args[3]);
            let p = props::registry().into_iter().find(|p| p.id == args[2]).unwrap_or_else(|| monitor::machinery_fail("unknown property"));
            println!("{}", if (p.both_profiles)(tier) { "yes" } else { "no" });
        }
        Some("needs-dbg") if args.len() >= 4 => {
            let tier = parse_tier(&args[3]);
            let p = props::registry().into_iter().find(|p| p.id == args[2]).unwrap_or_else(|| monitor::machinery_fail("unknown property"));
            println!("{}", if p.dbg_lean && tier.thorough() { "yes" } else { "no" });
        }
        Some("selfcheck") => {
            let (n, p7, p6) = self_checks();
            println!("selfcheck ok: best-of-n oracles agree on {} hands; covering pairs P7={} P6={}; profile={}", n, p7, p6, evidence::profile_name());
        }
        _ => {
            eprintln!("usage: ckc-mc run <Cxx> <quick|thorough> | replay <file> | needs-relchk <Cxx> <tier> | selfcheck");
            std::process::exit(2);
        }
    }
}

fn run(args: &[String]) -> ! {
    let id = args[2].clone();
    let tier = parse_tier(&args[3]);
    let child_out = args.iter().position(|a| a == "--child").and_then(|i| args.get(i + 1)).cloned();
    let seed = std::env::var("VERIF_SEED").ok().and_then(|s| s.parse::<u64>().ok()).unwrap_or(0);
    let prop = props::registry().into_iter().find(|p| p.id == id).unwrap_or_else(|| monitor::machinery_fail(&format!("unknown property {}", id)));
    let (n, p7, p6) = self_checks();

    // hang handler: a stalled worker is attributed to the case it published
    {
        let id = id.clone();
        let promises = prop.promises_return;
        let tier_name = tier.name();
        enumerate::set_hang_handler(Box::new(move |st| {
            let v = Violation {
                class: format!("hang:{}", st.kind),
                case: Case::new(&st.kind, &st.words),
                expected: "normal return".into(),
                observed: format!("worker {} made no progress for {} s inside this case", st.worker, monitor::hang_limit_secs()),
                profile: evidence::profile_name().into(),
                trace: vec![],
            };
            if !promises {
                monitor::machinery_fail(&format!("no progress in {:?}", v.case));
            }
            let mut rep = Report::new(&id, if tier_name == "quick" { Tier::Quick } else { Tier::Thorough }, 0);
            rep.rule = "aborted by the hang watchdog".into();
            rep.states = 1;
            rep.transitions = 1;
            rep.violate(v);
            evidence::finish(rep);
        }));
    }

    let shard = args.iter().position(|a| a == "--shard").and_then(|i| match (args.get(i + 1).and_then(|x| x.parse().ok()), args.get(i + 2).and_then(|x| x.parse().ok())) {
        (Some(k), Some(n)) => Some((k, n)),
        _ => None,
    });
    let lean = args.iter().any(|a| a == "--lean");
    let probe = args.iter().any(|a| a == "--probe");
    let ctx = props::Ctx { id: id.clone(), tier, seed, child: child_out.is_some(), shard, lean, probe };
    let mut rep = Report::new(&id, tier, seed);
    rep.extra.push(("oracle_selfcheck".into(), Json::obj().with("best_of_n_agreement_hands", Json::U(n)).with("p7_covering_pairs", Json::U(p7)).with("p6_covering_pairs", Json::U(p6))));
    (prop.run)(&ctx, &mut rep);
    if prop.trace_rerun && !monitor::trace_logging() && ctx.shard.is_none() && !ctx.probe && !ctx.lean {
        // second configuration: a host that logs at Trace level (the overflow-checked profile is always in it)
        monitor::set_trace_logging(true);
        (prop.run)(&ctx, &mut rep);
        monitor::set_trace_logging(false);
        rep.rule.push_str(" Every case is explored in two logging configurations (no logger / a Trace-level logger installed); the counts include both.");
    }

    if let Some(out) = child_out {
        evidence::absorb_unreproduced(&mut rep);
        let j = rep.to_child_json();
        if std::fs::write(&out, j.to_string_compact()).is_err() {
            monitor::machinery_fail("child cannot write its report");
        }
        std::process::exit(0);
    }

    if (prop.both_profiles)(tier) {
        let bin = std::env::var("CKC_MC_RELCHK_BIN").unwrap_or_else(|_| monitor::machinery_fail("CKC_MC_RELCHK_BIN not set but this tier runs in both build profiles"));
        let out = std::env::temp_dir().join(format!("ckc-mc-child-{}-{}.json", id, std::process::id()));
        // quick tier of the heavy ranking properties: the overflow-checked child explores the lean selection of spaces
        let lean_child = !tier.thorough() && prop.dbg_lean && id != "C05" && id != "C11";
        let mut cmd = std::process::Command::new(&bin);
        cmd.args(["run", &id, tier.name(), "--child", out.to_str().unwrap()]);
        if lean_child {
            cmd.arg("--lean");
        }
        let status = cmd.status();
        match status {
            Ok(s) if s.success() => {
                let text = std::fs::read_to_string(&out).unwrap_or_else(|_| monitor::machinery_fail("child report missing"));
                let _ = std::fs::remove_file(&out);
                let j = Json::parse(&text).unwrap_or_else(|e| monitor::machinery_fail(&format!("child report unreadable: {}", e)));
                rep.merge_child(&j);
            }
            Ok(s) if s.code() == Some(1) => {
                // the child already printed its VIOLATION line (hang watchdog path)
                std::process::exit(1);
            }
            _ => monitor::machinery_fail("overflow-checked child run failed"),
        }
    }
    if prop.dbg_lean && tier.thorough() {
        // third configuration: the crate compiled as `cargo test` compiles it (opt-level 0), lean spaces only
        let bin = std::env::var("CKC_MC_DBG_BIN").unwrap_or_else(|_| monitor::machinery_fail("CKC_MC_DBG_BIN not set but this tier also runs the unoptimised profile"));
        let out = std::env::temp_dir().join(format!("ckc-mc-dbg-{}-{}.json", id, std::process::id()));
        let status = std::process::Command::new(&bin).args(["run", &id, "quick", "--child", out.to_str().unwrap(), "--lean"]).status();
        match status {
            Ok(s) if s.success() => {
                let text = std::fs::read_to_string(&out).unwrap_or_else(|_| monitor::machinery_fail("dbg child report missing"));
                let _ = std::fs::remove_file(&out);
                let mut j = Json::parse(&text).unwrap_or_else(|e| monitor::machinery_fail(&format!("dbg child report unreadable: {}", e)));
                j.set("profile", Json::s("dbg (crate at opt-level 0, lean spaces)"));
                rep.merge_child(&j);
            }
            Ok(s) if s.code() == Some(1) => std::process::exit(1),
            _ => monitor::machinery_fail("unoptimised child run failed"),
        }
    }
    evidence::finish(rep);
}

fn replay(path: &str) -> ! {
    let text = std::fs::read_to_string(path).unwrap_or_else(|_| monitor::machinery_fail("cannot read replay file"));
    let j = Json::parse(&text).unwrap_or_else(|e| monitor::machinery_fail(&format!("replay file is not JSON: {}", e)));
    let id = j.get("property").and_then(|p| p.as_str()).unwrap_or_else(|| monitor::machinery_fail("replay file has no property")).to_string();
    let case = Case::from_json(j.get("case").unwrap_or_else(|| monitor::machinery_fail("replay file has no case"))).unwrap_or_else(|e| monitor::machinery_fail(&e));
    let prop = props::registry().into_iter().find(|p| p.id == id).unwrap_or_else(|| monitor::machinery_fail("unknown property"));
    let _ = self_checks();
    println!("replaying {} case {} (profile {})", id, case.to_json().to_string_compact(), evidence::profile_name());
    if let Some(tr) = j.get("trace").and_then(|t| t.as_arr()) {
        for t in tr {
            println!("  trace: {}", t.as_str().unwrap_or(""));
        }
    }
    // both logging configurations: none (Off) and a host that logs at Trace level
    let run_once = || if case.kind.starts_with("seq|") { props::judge_seq(prop.judge, &case) } else { (prop.judge)(&case) };
    monitor::set_trace_logging(false);
    let mut verdict = run_once();
    if !matches!(verdict, Verdict::Violated { .. }) {
        monitor::set_trace_logging(true);
        let v2 = run_once();
        if let Verdict::Violated { class, expected, observed } = v2 {
            verdict = Verdict::Violated { class, expected, observed: format!("{} [with a Trace-level logger installed]", observed) };
        }
    }
    match verdict {
        Verdict::Holds => {
            println!("HOLDS property={} (the recorded case no longer violates)", id);
            std::process::exit(0);
        }
        Verdict::NotJudged(why) => {
            println!("NOT-JUDGED property={} {}", id, why);
            std::process::exit(0);
        }
        Verdict::Violated { class, expected, observed } => {
            println!("VIOLATION property={} replay={}", id, path);
            println!("  class={} expected: {} observed: {}", class, expected, observed);
            std::process::exit(1);
        }
    }
}
