//! E1: deterministic partitioned exhaustive enumeration.
//!
//! The index space is cut into partitions whose content does not depend on the number of threads or on
//! timing; workers pull partition numbers from a shared counter; per-partition results come back in
//! partition order, so every merged count and the *least* reported violation are identical on every run.
use super::monitor;
use std::sync::atomic::{AtomicBool, AtomicUsize, Ordering::Relaxed, Ordering::SeqCst};
use std::sync::{Mutex, OnceLock};

pub fn nthreads() -> usize {
    std::env::var("CKC_MC_THREADS")
        .ok()
        .and_then(|s| s.parse().ok())
        .unwrap_or_else(|| std::thread::available_parallelism().map(|n| n.get()).unwrap_or(4))
        .clamp(1, monitor::MAX_WORKERS)
}

type HangHandler = Box<dyn Fn(monitor::Stalled) + Send + Sync>;
static HANG: OnceLock<HangHandler> = OnceLock::new();
pub fn set_hang_handler(h: HangHandler) {
    let _ = HANG.set(h);
}

/// Runs `f(part)` for every partition `0..nparts` on the worker pool and returns the results in partition order.
pub fn par_parts<A: Send, F: Fn(usize) -> A + Sync>(nparts: usize, f: F) -> Vec<A> {
    let threads = nthreads().min(nparts.max(1));
    let next = AtomicUsize::new(0);
    let done = AtomicBool::new(false);
    let results: Mutex<Vec<(usize, A)>> = Mutex::new(Vec::with_capacity(nparts));
    let limit = monitor::hang_limit_secs();
    std::thread::scope(|s| {
        s.spawn(|| {
            let mut last = [(0u64, 0u64); monitor::MAX_WORKERS];
            let mut sub = 0u32;
            while !done.load(SeqCst) {
                std::thread::sleep(std::time::Duration::from_millis(100));
                sub += 1;
                if sub % 10 == 0 {
                    if let Some(st) = monitor::scan(&mut last, 1, limit) {
                        if let Some(h) = HANG.get() {
                            h(st);
                        }
                        monitor::machinery_fail("a worker made no progress and no hang handler is installed");
                    }
                }
            }
        });
        let hs: Vec<_> = (0..threads)
            .map(|w| {
                let (next, results, f) = (&next, &results, &f);
                s.spawn(move || {
                    monitor::set_worker(w);
                    loop {
                        let p = next.fetch_add(1, Relaxed);
                        if p >= nparts {
                            break;
                        }
                        let a = f(p);
                        results.lock().unwrap().push((p, a));
                        monitor::tick();
                    }
                    monitor::clear_worker();
                })
            })
            .collect();
        let mut failed = false;
        for h in hs {
            if h.join().is_err() {
                failed = true;
            }
        }
        done.store(true, SeqCst);
        if failed {
            monitor::machinery_fail("a harness worker panicked outside the guarded calls");
        }
    });
    let mut r = results.into_inner().unwrap();
    r.sort_by_key(|x| x.0);
    if r.len() != nparts {
        monitor::machinery_fail("partition results missing");
    }
    r.into_iter().map(|x| x.1).collect()
}

/// n choose k (u64, exact for the sizes used here).
pub fn choose(n: u64, k: u64) -> u64 {
    if k > n {
        return 0;
    }
    let k = k.min(n - k);
    let mut r: u128 = 1;
    for i in 0..k {
        r = r * (n - i) as u128 / (i + 1) as u128;
    }
    r as u64
}

/// All k-combinations of 0..n in lexicographic order whose leading elements equal `prefix`.
pub fn combos_prefix(n: usize, k: usize, prefix: &[usize], f: &mut dyn FnMut(&[usize])) {
    debug_assert!(prefix.windows(2).all(|w| w[0] < w[1]));
    let mut idx = vec![0usize; k];
    idx[..prefix.len()].copy_from_slice(prefix);
    fn rec(n: usize, k: usize, pos: usize, idx: &mut Vec<usize>, f: &mut dyn FnMut(&[usize])) {
        if pos == k {
            f(idx);
            return;
        }
        let start = if pos == 0 { 0 } else { idx[pos - 1] + 1 };
        let mut v = start;
        while v + (k - pos) <= n {
            idx[pos] = v;
            rec(n, k, pos + 1, idx, f);
            v += 1;
        }
    }
    if prefix.len() > k || prefix.iter().any(|&p| p >= n) {
        return;
    }
    rec(n, k, prefix.len(), &mut idx, f);
}

pub fn combos(n: usize, k: usize) -> Vec<Vec<usize>> {
    let mut out = Vec::new();
    combos_prefix(n, k, &[], &mut |c| out.push(c.to_vec()));
    out
}

/// All size-k multisets (non-decreasing index vectors) over 0..n whose first element is `first`.
pub fn multisets_first(n: usize, k: usize, first: usize, f: &mut dyn FnMut(&[usize])) {
    let mut idx = vec![first; k];
    fn rec(n: usize, k: usize, pos: usize, idx: &mut Vec<usize>, f: &mut dyn FnMut(&[usize])) {
        if pos == k {
            f(idx);
            return;
        }
        for v in idx[pos - 1]..n {
            idx[pos] = v;
            rec(n, k, pos + 1, idx, f);
        }
    }
    if k == 0 {
        return;
    }
    rec(n, k, 1, &mut idx, f);
}

/// Decodes tuple number `t` (0..n^k) into `out` (least significant position first).
#[inline]
pub fn tuple_decode(mut t: u64, n: u64, out: &mut [usize]) {
    for o in out.iter_mut() {
        *o = (t % n) as usize;
        t /= n;
    }
}

/// All permutations of 0..n in lexicographic order.
pub fn permutations(n: usize) -> Vec<Vec<usize>> {
    let mut out = Vec::new();
    let mut cur: Vec<usize> = Vec::new();
    let mut used = vec![false; n];
    fn rec(n: usize, cur: &mut Vec<usize>, used: &mut Vec<bool>, out: &mut Vec<Vec<usize>>) {
        if cur.len() == n {
            out.push(cur.clone());
            return;
        }
        for i in 0..n {
            if !used[i] {
                used[i] = true;
                cur.push(i);
                rec(n, cur, used, out);
                cur.pop();
                used[i] = false;
            }
        }
    }
    rec(n, &mut cur, &mut used, &mut out);
    out
}

/// P7: the 21 slot permutations x -> a*x+b (mod 7), a in {1,2,4}. `p[i]` is the slot card i goes to.
pub fn p7() -> Vec<[usize; 7]> {
    let mut v = Vec::new();
    for a in [1usize, 2, 4] {
        for b in 0..7 {
            let mut p = [0usize; 7];
            for (x, slot) in p.iter_mut().enumerate() {
                *slot = (a * x + b) % 7;
            }
            v.push(p);
        }
    }
    v
}

/// P6: the six rotations. `p[i]` is the slot card i goes to.
pub fn p6() -> Vec<[usize; 6]> {
    (0..6)
        .map(|b| {
            let mut p = [0usize; 6];
            for (x, slot) in p.iter_mut().enumerate() {
                *slot = (x + b) % 6;
            }
            p
        })
        .collect()
}

/// Start-up self check of the covering facts the "any slot order" bounds rest on: for every 5-subset S of the
/// cards and every 5-subset R of the slots exactly one permutation of the family maps S onto R.
pub fn verify_covering() -> Result<(u64, u64), String> {
    fn mask_of(c: &[usize]) -> u32 {
        c.iter().fold(0, |m, &i| m | 1 << i)
    }
    let mut pairs7 = 0;
    for s in combos(7, 5) {
        for r in combos(7, 5) {
            let hits = p7().iter().filter(|p| mask_of(&s.iter().map(|&i| p[i]).collect::<Vec<_>>()) == mask_of(&r)).count();
            if hits != 1 {
                return Err(format!("P7 covering fails for S={:?} R={:?}: {} permutations", s, r, hits));
            }
            pairs7 += 1;
        }
    }
    let mut pairs6 = 0;
    for s in combos(6, 5) {
        for r in combos(6, 5) {
            let hits = p6().iter().filter(|p| mask_of(&s.iter().map(|&i| p[i]).collect::<Vec<_>>()) == mask_of(&r)).count();
            if hits != 1 {
                return Err(format!("P6 covering fails for S={:?} R={:?}: {} permutations", s, r, hits));
            }
            pairs6 += 1;
        }
    }
    Ok((pairs7, pairs6))
}

#[cfg(test)]
mod tests {
    use super::*;
    #[test]
    fn counts() {
        assert_eq!(choose(52, 5), 2_598_960);
        assert_eq!(choose(52, 7), 133_784_560);
        assert_eq!(combos(7, 5).len(), 21);
        assert_eq!(permutations(5).len(), 120);
        let mut n = 0;
        for first in 0..53 {
            multisets_first(53, 5, first, &mut |_| n += 1);
        }
        assert_eq!(n, 4_187_106);
        assert_eq!(verify_covering().unwrap(), (441, 36));
        let r = par_parts(100, |p| p * 2);
        assert_eq!(r[37], 74);
    }
}
