//! Panic monitor, hang watchdog and machinery-failure exit.
//!
//! * every call into the crate under test that a property promises to return normally runs inside
//!   `guard`, which turns an unwind into `Err(message)`;
//! * every worker publishes the case it is about to execute (`beat`) so that a hang inside the crate is
//!   attributed to a concrete input by the watchdog instead of ending in an outer timeout;
//! * `machinery_fail` is exit code 2: a broken check, never a verdict about the code under test.
use std::cell::{Cell, RefCell};
use std::panic::{catch_unwind, AssertUnwindSafe};
use std::sync::atomic::{AtomicBool, AtomicU64, AtomicUsize, Ordering::Relaxed};
use std::sync::Mutex;

pub const MAX_WORKERS: usize = 64;
pub const CASE_WORDS: usize = 10;

static PANICS: AtomicU64 = AtomicU64::new(0);
thread_local! {
    static LAST_PANIC: RefCell<String> = RefCell::new(String::new());
    static IN_GUARD: Cell<bool> = Cell::new(false);
    static WORKER: Cell<usize> = Cell::new(usize::MAX);
}

struct Slot {
    active: AtomicBool,
    beats: AtomicU64,
    kind: AtomicUsize,
    len: AtomicUsize,
    words: [AtomicU64; CASE_WORDS],
}
#[allow(clippy::declare_interior_mutable_const)]
const Z: AtomicU64 = AtomicU64::new(0);
#[allow(clippy::declare_interior_mutable_const)]
const SLOT: Slot = Slot { active: AtomicBool::new(false), beats: AtomicU64::new(0), kind: AtomicUsize::new(0), len: AtomicUsize::new(0), words: [Z; CASE_WORDS] };
static SLOTS: [Slot; MAX_WORKERS] = [SLOT; MAX_WORKERS];
static KINDS: Mutex<Vec<String>> = Mutex::new(Vec::new());

/// Installs the silent, counting panic hook. Panics outside `guard` (i.e. in the harness itself) are still
/// printed, because they are machinery errors.
pub fn install() {
    std::panic::set_hook(Box::new(|info| {
        let msg = if let Some(s) = info.payload().downcast_ref::<&str>() {
            (*s).to_string()
        } else if let Some(s) = info.payload().downcast_ref::<String>() {
            s.clone()
        } else {
            "panic".to_string()
        };
        let loc = info.location().map(|l| format!(" at {}:{}", l.file(), l.line())).unwrap_or_default();
        let full = format!("{}{}", msg, loc);
        if IN_GUARD.with(|g| g.get()) {
            PANICS.fetch_add(1, Relaxed);
            LAST_PANIC.with(|l| *l.borrow_mut() = full);
        } else {
            eprintln!("MACHINERY: harness panic: {}", full);
        }
    }));
}

struct NoopLogger;
impl log::Log for NoopLogger {
    fn enabled(&self, _: &log::Metadata) -> bool {
        true
    }
    fn log(&self, record: &log::Record) {
        // format the message (so that a panicking or expensive Display impl in a log statement is exercised) and drop it
        let _ = format!("{}", record.args()).len();
    }
    fn flush(&self) {}
}
static NOOP_LOGGER: NoopLogger = NoopLogger;

/// Installs a logger that accepts everything and discards it. The maximum level starts at Off (the configuration of a
/// host that never set up logging); `set_trace_logging(true)` switches to the configuration of a host that logs at
/// Trace level. Code under test that takes a different path when `log_enabled!` is true is explored in both.
pub fn install_logger() {
    let _ = log::set_logger(&NOOP_LOGGER);
    log::set_max_level(log::LevelFilter::Off);
}
pub fn set_trace_logging(on: bool) {
    log::set_max_level(if on { log::LevelFilter::Trace } else { log::LevelFilter::Off });
}
pub fn trace_logging() -> bool {
    log::max_level() == log::LevelFilter::Trace
}

pub fn panics_observed() -> u64 {
    PANICS.load(Relaxed)
}

/// Runs `f` (a call into the crate under test); an unwind becomes `Err(panic message)`.
#[inline]
pub fn guard<T>(f: impl FnOnce() -> T) -> Result<T, String> {
    IN_GUARD.with(|g| g.set(true));
    let r = catch_unwind(AssertUnwindSafe(f));
    IN_GUARD.with(|g| g.set(false));
    r.map_err(|_| LAST_PANIC.with(|l| l.borrow().clone()))
}

pub fn machinery_fail(msg: &str) -> ! {
    println!("MACHINERY-ERROR: {}", msg);
    eprintln!("MACHINERY-ERROR: {}", msg);
    std::process::exit(2);
}

/// Registers a case-kind name; the id is what workers publish with `beat`.
pub fn kind_id(name: &str) -> usize {
    let mut k = KINDS.lock().unwrap();
    if let Some(i) = k.iter().position(|n| n == name) {
        return i;
    }
    k.push(name.to_string());
    k.len() - 1
}
pub fn kind_name(id: usize) -> String {
    KINDS.lock().unwrap().get(id).cloned().unwrap_or_else(|| "?".into())
}

pub fn set_worker(id: usize) {
    WORKER.with(|w| w.set(id));
    if id < MAX_WORKERS {
        SLOTS[id].active.store(true, Relaxed);
        SLOTS[id].beats.fetch_add(1, Relaxed);
    }
}
pub fn clear_worker() {
    let id = WORKER.with(|w| w.replace(usize::MAX));
    if id < MAX_WORKERS {
        SLOTS[id].active.store(false, Relaxed);
    }
}

/// Publishes the case about to be executed by this worker (cheap: a handful of relaxed stores).
#[inline]
pub fn beat(kind: usize, words: &[u64]) {
    let id = WORKER.with(|w| w.get());
    if id >= MAX_WORKERS {
        return;
    }
    let s = &SLOTS[id];
    s.kind.store(kind, Relaxed);
    let n = words.len().min(CASE_WORDS);
    s.len.store(n, Relaxed);
    for i in 0..n {
        s.words[i].store(words[i], Relaxed);
    }
    s.beats.fetch_add(1, Relaxed);
}

/// Just a heartbeat (the published case stays the same).
#[inline]
pub fn tick() {
    let id = WORKER.with(|w| w.get());
    if id < MAX_WORKERS {
        SLOTS[id].beats.fetch_add(1, Relaxed);
    }
}

pub struct Stalled {
    pub worker: usize,
    pub kind: String,
    pub words: Vec<u64>,
}

/// One watchdog scan: `last` holds the (beats, seconds-stagnant) seen so far per worker.
pub fn scan(last: &mut [(u64, u64); MAX_WORKERS], step_s: u64, limit_s: u64) -> Option<Stalled> {
    for (i, s) in SLOTS.iter().enumerate() {
        if !s.active.load(Relaxed) {
            last[i] = (0, 0);
            continue;
        }
        let b = s.beats.load(Relaxed);
        if b == last[i].0 {
            last[i].1 += step_s;
            if last[i].1 >= limit_s {
                let n = s.len.load(Relaxed);
                return Some(Stalled { worker: i, kind: kind_name(s.kind.load(Relaxed)), words: (0..n).map(|k| s.words[k].load(Relaxed)).collect() });
            }
        } else {
            last[i] = (b, 0);
        }
    }
    None
}

pub fn hang_limit_secs() -> u64 {
    std::env::var("CKC_MC_HANG_SECS").ok().and_then(|s| s.parse().ok()).unwrap_or(90)
}
