//! E2: explicit-state breadth-first exploration of the *real* transition functions.
//!
//! A state is whatever the property module chooses (a real library object paired with its reference-model
//! twin). The state key must be the complete observable content, so that merged states have identical
//! futures. The search runs until the frontier is empty (closed graph), evaluates the invariant in every
//! state and the step relation on every edge, and returns the shortest action trace to the first violation.
use std::collections::HashMap;
use std::hash::Hash;

pub struct Explored {
    pub states: u64,
    pub transitions: u64,
    pub max_depth: u32,
    pub initial_states: u64,
    /// (trace of labels from an initial state, description)
    pub violation: Option<(Vec<String>, String)>,
    /// states first reached by an action sequence that were also initial (differential oracle hits)
    pub reconverged: u64,
}

pub struct Bfs<'a, S, A> {
    pub inits: Vec<(S, String)>,
    pub actions: &'a [A],
    /// executes the real operation; `Err` = the edge itself violates the property
    pub step: &'a dyn Fn(&S, &A) -> Result<S, String>,
    pub invariant: &'a dyn Fn(&S) -> Result<(), String>,
    pub label: &'a dyn Fn(&A) -> String,
    pub max_states: u64,
}

impl<'a, S: Clone + Eq + Hash, A> Bfs<'a, S, A> {
    pub fn run(self) -> Explored {
        let mut index: HashMap<S, usize> = HashMap::new();
        let mut nodes: Vec<(S, Option<(usize, usize)>, u32, String)> = Vec::new(); // state, parent(edge), depth, init label
        let mut ex = Explored { states: 0, transitions: 0, max_depth: 0, initial_states: 0, violation: None, reconverged: 0 };
        let trace = |nodes: &Vec<(S, Option<(usize, usize)>, u32, String)>, mut at: usize, extra: Option<String>, label: &dyn Fn(&A) -> String, actions: &[A]| {
            let mut t = Vec::new();
            if let Some(e) = extra {
                t.push(e);
            }
            loop {
                match nodes[at].1 {
                    Some((p, a)) => {
                        t.push(label(&actions[a]));
                        at = p;
                    }
                    None => {
                        t.push(format!("init: {}", nodes[at].3));
                        break;
                    }
                }
            }
            t.reverse();
            t
        };
        for (s, l) in self.inits {
            if !index.contains_key(&s) {
                index.insert(s.clone(), nodes.len());
                nodes.push((s, None, 0, l));
                ex.initial_states += 1;
            }
        }
        let mut head = 0;
        while head < nodes.len() {
            let (s, _, d, _) = nodes[head].clone();
            ex.max_depth = ex.max_depth.max(d);
            if let Err(e) = (self.invariant)(&s) {
                ex.violation = Some((trace(&nodes, head, None, self.label, self.actions), e));
                break;
            }
            for (ai, a) in self.actions.iter().enumerate() {
                ex.transitions += 1;
                match (self.step)(&s, a) {
                    Err(e) => {
                        ex.violation = Some((trace(&nodes, head, Some((self.label)(a)), self.label, self.actions), e));
                        break;
                    }
                    Ok(n) => {
                        if let Some(&j) = index.get(&n) {
                            if nodes[j].1.is_none() && j != head {
                                ex.reconverged += 1;
                            }
                        } else {
                            index.insert(n.clone(), nodes.len());
                            nodes.push((n, Some((head, ai)), d + 1, String::new()));
                            if nodes.len() as u64 > self.max_states {
                                super::monitor::machinery_fail("state graph larger than the declared bound: the abstraction is not closed");
                            }
                        }
                    }
                }
            }
            if ex.violation.is_some() {
                break;
            }
            head += 1;
        }
        ex.states = nodes.len() as u64;
        ex
    }
}
