//! Minimal JSON value, writer and parser (std only; the harness must build offline without serde_json).
use std::fmt::Write as _;

#[derive(Clone, Debug, PartialEq)]
pub enum Json {
    Null,
    Bool(bool),
    U(u64),
    I(i64),
    F(f64),
    S(String),
    A(Vec<Json>),
    O(Vec<(String, Json)>),
}

impl Json {
    pub fn obj() -> Json {
        Json::O(Vec::new())
    }
    pub fn s<T: Into<String>>(t: T) -> Json {
        Json::S(t.into())
    }
    pub fn set<T: Into<String>>(&mut self, k: T, v: Json) -> &mut Json {
        if let Json::O(items) = self {
            let k = k.into();
            if let Some(slot) = items.iter_mut().find(|(kk, _)| *kk == k) {
                slot.1 = v;
            } else {
                items.push((k, v));
            }
        }
        self
    }
    pub fn with<T: Into<String>>(mut self, k: T, v: Json) -> Json {
        self.set(k, v);
        self
    }
    pub fn get(&self, k: &str) -> Option<&Json> {
        match self {
            Json::O(items) => items.iter().find(|(kk, _)| kk == k).map(|(_, v)| v),
            _ => None,
        }
    }
    pub fn as_str(&self) -> Option<&str> {
        match self {
            Json::S(s) => Some(s),
            _ => None,
        }
    }
    pub fn as_u64(&self) -> Option<u64> {
        match self {
            Json::U(u) => Some(*u),
            Json::I(i) if *i >= 0 => Some(*i as u64),
            Json::F(f) if *f >= 0.0 && f.fract() == 0.0 => Some(*f as u64),
            _ => None,
        }
    }
    pub fn as_bool(&self) -> Option<bool> {
        match self {
            Json::Bool(b) => Some(*b),
            _ => None,
        }
    }
    pub fn as_arr(&self) -> Option<&Vec<Json>> {
        match self {
            Json::A(a) => Some(a),
            _ => None,
        }
    }
    pub fn as_obj(&self) -> Option<&Vec<(String, Json)>> {
        match self {
            Json::O(a) => Some(a),
            _ => None,
        }
    }

    pub fn to_string_pretty(&self) -> String {
        let mut out = String::new();
        self.write(&mut out, 0, true);
        out.push('\n');
        out
    }
    pub fn to_string_compact(&self) -> String {
        let mut out = String::new();
        self.write(&mut out, 0, false);
        out
    }

    fn write(&self, out: &mut String, ind: usize, pretty: bool) {
        match self {
            Json::Null => out.push_str("null"),
            Json::Bool(b) => out.push_str(if *b { "true" } else { "false" }),
            Json::U(u) => {
                let _ = write!(out, "{}", u);
            }
            Json::I(i) => {
                let _ = write!(out, "{}", i);
            }
            Json::F(f) => {
                if f.is_finite() {
                    let _ = write!(out, "{:.3}", f);
                } else {
                    out.push_str("null");
                }
            }
            Json::S(s) => write_str(out, s),
            Json::A(a) => {
                // arrays of scalars stay on one line
                let scalar = a.iter().all(|x| !matches!(x, Json::A(_) | Json::O(_)));
                if a.is_empty() {
                    out.push_str("[]");
                } else if scalar || !pretty {
                    out.push('[');
                    for (i, x) in a.iter().enumerate() {
                        if i > 0 {
                            out.push_str(if pretty { ", " } else { "," });
                        }
                        x.write(out, ind + 1, pretty);
                    }
                    out.push(']');
                } else {
                    out.push_str("[\n");
                    for (i, x) in a.iter().enumerate() {
                        pad(out, ind + 1);
                        x.write(out, ind + 1, pretty);
                        if i + 1 < a.len() {
                            out.push(',');
                        }
                        out.push('\n');
                    }
                    pad(out, ind);
                    out.push(']');
                }
            }
            Json::O(o) => {
                if o.is_empty() {
                    out.push_str("{}");
                } else if !pretty {
                    out.push('{');
                    for (i, (k, v)) in o.iter().enumerate() {
                        if i > 0 {
                            out.push(',');
                        }
                        write_str(out, k);
                        out.push(':');
                        v.write(out, ind + 1, pretty);
                    }
                    out.push('}');
                } else {
                    out.push_str("{\n");
                    for (i, (k, v)) in o.iter().enumerate() {
                        pad(out, ind + 1);
                        write_str(out, k);
                        out.push_str(": ");
                        v.write(out, ind + 1, pretty);
                        if i + 1 < o.len() {
                            out.push(',');
                        }
                        out.push('\n');
                    }
                    pad(out, ind);
                    out.push('}');
                }
            }
        }
    }

    pub fn parse(text: &str) -> Result<Json, String> {
        let mut p = Parser { b: text.as_bytes(), i: 0, src: text };
        p.ws();
        let v = p.value()?;
        p.ws();
        if p.i != p.b.len() {
            return Err(format!("trailing data at byte {}", p.i));
        }
        Ok(v)
    }
}

fn pad(out: &mut String, n: usize) {
    for _ in 0..n {
        out.push(' ');
    }
}

fn write_str(out: &mut String, s: &str) {
    out.push('"');
    for ch in s.chars() {
        match ch {
            '"' => out.push_str("\\\""),
            '\\' => out.push_str("\\\\"),
            '\n' => out.push_str("\\n"),
            '\r' => out.push_str("\\r"),
            '\t' => out.push_str("\\t"),
            c if (c as u32) < 0x20 => {
                let _ = write!(out, "\\u{:04x}", c as u32);
            }
            c => out.push(c),
        }
    }
    out.push('"');
}

struct Parser<'a> {
    b: &'a [u8],
    i: usize,
    src: &'a str,
}

impl<'a> Parser<'a> {
    fn ws(&mut self) {
        while self.i < self.b.len() && matches!(self.b[self.i], b' ' | b'\n' | b'\r' | b'\t') {
            self.i += 1;
        }
    }
    fn value(&mut self) -> Result<Json, String> {
        self.ws();
        if self.i >= self.b.len() {
            return Err("unexpected end".into());
        }
        match self.b[self.i] {
            b'{' => {
                self.i += 1;
                let mut items = Vec::new();
                self.ws();
                if self.peek() == Some(b'}') {
                    self.i += 1;
                    return Ok(Json::O(items));
                }
                loop {
                    self.ws();
                    let k = match self.value()? {
                        Json::S(s) => s,
                        _ => return Err("object key must be a string".into()),
                    };
                    self.ws();
                    if self.peek() != Some(b':') {
                        return Err(format!("expected ':' at byte {}", self.i));
                    }
                    self.i += 1;
                    let v = self.value()?;
                    items.push((k, v));
                    self.ws();
                    match self.peek() {
                        Some(b',') => self.i += 1,
                        Some(b'}') => {
                            self.i += 1;
                            return Ok(Json::O(items));
                        }
                        _ => return Err(format!("expected ',' or '}}' at byte {}", self.i)),
                    }
                }
            }
            b'[' => {
                self.i += 1;
                let mut items = Vec::new();
                self.ws();
                if self.peek() == Some(b']') {
                    self.i += 1;
                    return Ok(Json::A(items));
                }
                loop {
                    items.push(self.value()?);
                    self.ws();
                    match self.peek() {
                        Some(b',') => self.i += 1,
                        Some(b']') => {
                            self.i += 1;
                            return Ok(Json::A(items));
                        }
                        _ => return Err(format!("expected ',' or ']' at byte {}", self.i)),
                    }
                }
            }
            b'"' => {
                self.i += 1;
                let mut s = String::new();
                loop {
                    if self.i >= self.b.len() {
                        return Err("unterminated string".into());
                    }
                    let c = self.b[self.i];
                    if c == b'"' {
                        self.i += 1;
                        return Ok(Json::S(s));
                    }
                    if c == b'\\' {
                        self.i += 1;
                        let e = *self.b.get(self.i).ok_or("bad escape")?;
                        self.i += 1;
                        match e {
                            b'"' => s.push('"'),
                            b'\\' => s.push('\\'),
                            b'/' => s.push('/'),
                            b'n' => s.push('\n'),
                            b'r' => s.push('\r'),
                            b't' => s.push('\t'),
                            b'b' => s.push('\u{8}'),
                            b'f' => s.push('\u{c}'),
                            b'u' => {
                                let h = self.src.get(self.i..self.i + 4).ok_or("bad \\u")?;
                                let mut cp = u32::from_str_radix(h, 16).map_err(|e| e.to_string())?;
                                self.i += 4;
                                if (0xD800..0xDC00).contains(&cp) && self.src.get(self.i..self.i + 2) == Some("\\u") {
                                    let h2 = self.src.get(self.i + 2..self.i + 6).ok_or("bad \\u")?;
                                    let lo = u32::from_str_radix(h2, 16).map_err(|e| e.to_string())?;
                                    self.i += 6;
                                    cp = 0x10000 + ((cp - 0xD800) << 10) + (lo - 0xDC00);
                                }
                                s.push(char::from_u32(cp).unwrap_or('\u{fffd}'));
                            }
                            _ => return Err("bad escape".into()),
                        }
                    } else {
                        // copy one UTF-8 char
                        let rest = &self.src[self.i..];
                        let ch = rest.chars().next().ok_or("bad utf8")?;
                        s.push(ch);
                        self.i += ch.len_utf8();
                    }
                }
            }
            b't' if self.src[self.i..].starts_with("true") => {
                self.i += 4;
                Ok(Json::Bool(true))
            }
            b'f' if self.src[self.i..].starts_with("false") => {
                self.i += 5;
                Ok(Json::Bool(false))
            }
            b'n' if self.src[self.i..].starts_with("null") => {
                self.i += 4;
                Ok(Json::Null)
            }
            _ => {
                let st = self.i;
                while self.i < self.b.len() && matches!(self.b[self.i], b'-' | b'+' | b'.' | b'e' | b'E' | b'0'..=b'9') {
                    self.i += 1;
                }
                let t = &self.src[st..self.i];
                if t.is_empty() {
                    return Err(format!("unexpected byte at {}", st));
                }
                if let Ok(u) = t.parse::<u64>() {
                    Ok(Json::U(u))
                } else if let Ok(i) = t.parse::<i64>() {
                    Ok(Json::I(i))
                } else {
                    t.parse::<f64>().map(Json::F).map_err(|e| e.to_string())
                }
            }
        }
    }
    fn peek(&self) -> Option<u8> {
        self.b.get(self.i).copied()
    }
}

#[cfg(test)]
mod tests {
    use super::*;
    #[test]
    fn round_trip() {
        let j = Json::obj()
            .with("a", Json::U(3))
            .with("s", Json::s("x\"y\n😀\u{1}"))
            .with("l", Json::A(vec![Json::I(-2), Json::Bool(true), Json::Null, Json::A(vec![])]))
            .with("o", Json::obj().with("k", Json::F(1.5)));
        let t = j.to_string_pretty();
        assert_eq!(Json::parse(&t).unwrap(), j);
        let c = j.to_string_compact();
        assert_eq!(Json::parse(&c).unwrap(), j);
    }
}
