pub mod enumerate;
pub mod evidence;
pub mod explore;
pub mod json;
pub mod monitor;
