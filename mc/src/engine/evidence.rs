//! Report accumulation, known-findings handling, replay artefacts and the evidence/<id>.json writer.
use super::json::Json;
use super::monitor;
use std::collections::BTreeMap;
use std::path::{Path, PathBuf};
use std::time::Instant;

#[derive(Clone, Copy, PartialEq, Eq, Debug)]
pub enum Tier {
    Quick,
    Thorough,
}
impl Tier {
    pub fn name(self) -> &'static str {
        match self {
            Tier::Quick => "quick",
            Tier::Thorough => "thorough",
        }
    }
    pub fn thorough(self) -> bool {
        self == Tier::Thorough
    }
}

pub fn profile_name() -> &'static str {
    if cfg!(debug_assertions) {
        "relchk"
    } else {
        "release"
    }
}

pub fn verif_dir() -> PathBuf {
    std::env::var("CKC_MC_VERIF_DIR").map(PathBuf::from).unwrap_or_else(|_| PathBuf::from("/verif"))
}

/// where evidence/ and replays/ are written (default: the verification directory itself; scratch trials of seeded
/// changes redirect it so that they never overwrite the evidence of the real tree)
pub fn out_dir() -> PathBuf {
    std::env::var("CKC_MC_OUT_DIR").map(PathBuf::from).unwrap_or_else(|_| verif_dir())
}

/// One concrete, replayable case: which entry point / family (`kind`) and its inputs.
#[derive(Clone, Debug, PartialEq)]
pub struct Case {
    pub kind: String,
    pub words: Vec<u64>,
    pub text: Option<String>,
}
impl Case {
    pub fn new(kind: &str, words: &[u64]) -> Case {
        Case { kind: kind.to_string(), words: words.to_vec(), text: None }
    }
    pub fn w32(kind: &str, words: &[u32]) -> Case {
        Case { kind: kind.to_string(), words: words.iter().map(|w| *w as u64).collect(), text: None }
    }
    pub fn text(kind: &str, text: &str, words: &[u64]) -> Case {
        Case { kind: kind.to_string(), words: words.to_vec(), text: Some(text.to_string()) }
    }
    pub fn to_json(&self) -> Json {
        let mut j = Json::obj().with("kind", Json::s(self.kind.clone())).with("words", Json::A(self.words.iter().map(|w| Json::U(*w)).collect()));
        if let Some(t) = &self.text {
            j.set("text", Json::s(t.clone()));
            // a lossless form for strings with unusual characters
            j.set("text_scalars", Json::A(t.chars().map(|c| Json::U(c as u64)).collect()));
        }
        j
    }
    pub fn from_json(j: &Json) -> Result<Case, String> {
        let kind = j.get("kind").and_then(|k| k.as_str()).ok_or("case.kind missing")?.to_string();
        let words = j.get("words").and_then(|w| w.as_arr()).ok_or("case.words missing")?.iter().map(|x| x.as_u64().ok_or("bad word")).collect::<Result<Vec<_>, _>>()?;
        let text = if let Some(sc) = j.get("text_scalars").and_then(|a| a.as_arr()) {
            Some(sc.iter().map(|x| x.as_u64().and_then(|u| char::from_u32(u as u32)).ok_or("bad scalar")).collect::<Result<String, _>>()?)
        } else {
            j.get("text").and_then(|t| t.as_str()).map(|s| s.to_string())
        };
        Ok(Case { kind, words, text })
    }
    pub fn w32s(&self) -> Vec<u32> {
        self.words.iter().map(|w| *w as u32).collect()
    }
}

pub enum Verdict {
    Holds,
    /// class = finding class (what known_findings.txt is keyed by), then expected / observed in words
    Violated { class: String, expected: String, observed: String },
    /// the statement does not constrain this case
    NotJudged(String),
}

#[derive(Clone, Debug)]
pub struct Violation {
    pub class: String,
    pub case: Case,
    pub expected: String,
    pub observed: String,
    pub profile: String,
    pub trace: Vec<String>,
}
impl Violation {
    pub fn to_json(&self, property: &str, tier: &str) -> Json {
        Json::obj()
            .with("property", Json::s(property))
            .with("class", Json::s(self.class.clone()))
            .with("case", self.case.to_json())
            .with("expected", Json::s(self.expected.clone()))
            .with("observed", Json::s(self.observed.clone()))
            .with("profile", Json::s(self.profile.clone()))
            .with("tier", Json::s(tier))
            .with("trace", Json::A(self.trace.iter().map(|t| Json::s(t.clone())).collect()))
    }
    pub fn from_json(j: &Json) -> Result<Violation, String> {
        Ok(Violation {
            class: j.get("class").and_then(|x| x.as_str()).unwrap_or("").to_string(),
            case: Case::from_json(j.get("case").ok_or("case missing")?)?,
            expected: j.get("expected").and_then(|x| x.as_str()).unwrap_or("").to_string(),
            observed: j.get("observed").and_then(|x| x.as_str()).unwrap_or("").to_string(),
            profile: j.get("profile").and_then(|x| x.as_str()).unwrap_or("").to_string(),
            trace: j.get("trace").and_then(|x| x.as_arr()).map(|a| a.iter().filter_map(|t| t.as_str().map(|s| s.to_string())).collect()).unwrap_or_default(),
        })
    }
}

/// Per-partition accumulator used by the enumerating workers.
#[derive(Default, Clone)]
pub struct Acc {
    pub cases: u64,
    pub calls: u64,
    pub nontrivial: u64,
    pub viol_count: u64,
    pub viols: Vec<Violation>,
    pub hist: Vec<u64>,
    pub samples: Vec<Json>,
}
impl Acc {
    pub fn new(hist_len: usize) -> Acc {
        Acc { hist: vec![0; hist_len], ..Default::default() }
    }
    pub fn violate(&mut self, v: Violation) {
        self.viol_count += 1;
        // keep the first few per partition and the first of every further class
        if self.viols.len() < 4 || (self.viols.len() < 32 && !self.viols.iter().any(|x| x.class == v.class)) {
            self.viols.push(v);
        }
    }
    pub fn merge(&mut self, o: Acc) {
        self.cases += o.cases;
        self.calls += o.calls;
        self.nontrivial += o.nontrivial;
        self.viol_count += o.viol_count;
        for v in o.viols {
            if self.viols.len() < 16 || (self.viols.len() < 64 && !self.viols.iter().any(|x| x.class == v.class)) {
                self.viols.push(v);
            }
        }
        if self.hist.len() < o.hist.len() {
            self.hist.resize(o.hist.len(), 0);
        }
        for (a, b) in self.hist.iter_mut().zip(o.hist.iter()) {
            *a += *b;
        }
        for s in o.samples {
            if self.samples.len() < 6 {
                self.samples.push(s);
            }
        }
    }
    pub fn merged(parts: Vec<Acc>) -> Acc {
        let mut it = parts.into_iter();
        let mut a = it.next().unwrap_or_default();
        for p in it {
            a.merge(p);
        }
        a
    }
}

pub struct Space {
    pub name: String,
    pub cases: u64,
    pub calls: u64,
    pub wall_s: f64,
    pub exhaustive: bool,
    pub note: String,
}

pub struct Report {
    pub id: String,
    pub tier: Tier,
    pub seed: u64,
    pub started: Instant,
    pub states: u64,
    pub transitions: u64,
    pub compared: u64,
    pub evaluations: u64,
    pub distinct_nontrivial: u64,
    pub rule: String,
    pub bound: String,
    pub exhaustive: bool,
    pub spaces: Vec<Space>,
    pub hist: BTreeMap<String, u64>,
    pub samples: Vec<Json>,
    pub assumptions: Vec<String>,
    pub viol_count: u64,
    pub viols: Vec<Violation>,
    pub guards: Vec<(String, bool, String)>,
    pub profiles: Vec<String>,
    pub extra: Vec<(String, Json)>,
}

impl Report {
    pub fn new(id: &str, tier: Tier, seed: u64) -> Report {
        Report {
            id: id.to_string(),
            tier,
            seed,
            started: Instant::now(),
            states: 0,
            transitions: 0,
            compared: 0,
            evaluations: 0,
            distinct_nontrivial: 0,
            rule: String::new(),
            bound: String::new(),
            exhaustive: true,
            spaces: Vec::new(),
            hist: BTreeMap::new(),
            samples: Vec::new(),
            assumptions: Vec::new(),
            viol_count: 0,
            viols: Vec::new(),
            guards: Vec::new(),
            profiles: vec![profile_name().to_string()],
            extra: Vec::new(),
        }
    }

    /// Adds one completely enumerated space: `acc.cases` distinct inputs, `acc.calls` real-code calls.
    pub fn add_space(&mut self, name: &str, acc: &Acc, t0: Instant, note: &str) {
        let traced = format!("{} [Trace-level logger installed]", name);
        let name: &str = if monitor::trace_logging() && !cfg!(debug_assertions) && !name.contains("Trace") { &traced } else { name };
        self.spaces.push(Space { name: name.to_string(), cases: acc.cases, calls: acc.calls, wall_s: t0.elapsed().as_secs_f64(), exhaustive: true, note: note.to_string() });
        self.states += acc.cases;
        self.evaluations += acc.cases;
        self.transitions += acc.calls;
        self.compared += acc.cases;
        self.distinct_nontrivial += acc.nontrivial;
        self.viol_count += acc.viol_count;
        for v in &acc.viols {
            self.push_violation(v.clone());
        }
        for s in &acc.samples {
            if self.samples.len() < 12 {
                self.samples.push(s.clone());
            }
        }
        if std::env::var("CKC_MC_QUIET").is_err() {
        eprintln!("[{} {}] space {:<44} cases {:>14} calls {:>15} viol {:>6} {:.1}s", self.id, profile_name(), name, acc.cases, acc.calls, acc.viol_count, t0.elapsed().as_secs_f64());
        }
    }
    pub fn push_violation(&mut self, v: Violation) {
        if self.viols.len() < 24 || (self.viols.len() < 96 && !self.viols.iter().any(|x| x.class == v.class)) {
            self.viols.push(v);
        }
    }
    pub fn violate(&mut self, v: Violation) {
        self.viol_count += 1;
        self.push_violation(v);
    }
    pub fn hist_add(&mut self, key: &str, n: u64) {
        *self.hist.entry(key.to_string()).or_insert(0) += n;
    }
    pub fn hist_named(&mut self, prefix: &str, names: &[&str], h: &[u64]) {
        for (n, v) in names.iter().zip(h.iter()) {
            self.hist_add(&format!("{}{}", prefix, n), *v);
        }
    }
    /// A vacuity guard: a statement about what the *exploration* covered. A failing guard means the check is
    /// broken (exit 2) - unless violations were found, which are reported first.
    pub fn guard(&mut self, name: &str, ok: bool, detail: String) {
        self.guards.push((name.to_string(), ok, detail));
    }
    pub fn sample(&mut self, j: Json) {
        if self.samples.len() < 12 {
            self.samples.push(j);
        }
    }
    pub fn assume(&mut self, s: &str) {
        self.assumptions.push(s.to_string());
    }

    pub fn to_child_json(&self) -> Json {
        Json::obj()
            .with("profile", Json::s(profile_name()))
            .with("states", Json::U(self.states))
            .with("transitions", Json::U(self.transitions))
            .with("compared", Json::U(self.compared))
            .with("evaluations", Json::U(self.evaluations))
            .with("distinct_nontrivial", Json::U(self.distinct_nontrivial))
            .with("viol_count", Json::U(self.viol_count))
            .with("viols", Json::A(self.viols.iter().map(|v| v.to_json(&self.id, self.tier.name())).collect()))
            .with("hist", Json::O(self.hist.iter().map(|(k, v)| (k.clone(), Json::U(*v))).collect()))
            .with("guards", Json::A(self.guards.iter().map(|g| Json::A(vec![Json::s(g.0.clone()), Json::Bool(g.1), Json::s(g.2.clone())])).collect()))
            .with("spaces", Json::A(self.spaces.iter().map(space_json).collect()))
            .with("panics_observed", Json::U(monitor::panics_observed()))
    }

    /// Merges the report of one shard process (same profile, disjoint part of a space): everything adds up.
    pub fn merge_shard(&mut self, j: &Json) {
        let g = |k: &str| j.get(k).and_then(|x| x.as_u64()).unwrap_or(0);
        self.states += g("states");
        self.transitions += g("transitions");
        self.compared += g("compared");
        self.evaluations += g("evaluations");
        self.distinct_nontrivial += g("distinct_nontrivial");
        self.viol_count += g("viol_count");
        if let Some(vs) = j.get("viols").and_then(|v| v.as_arr()) {
            for v in vs {
                if let Ok(v) = Violation::from_json(v) {
                    self.push_violation(v);
                }
            }
        }
        if let Some(sp) = j.get("spaces").and_then(|s| s.as_arr()) {
            for s in sp {
                let name = s.get("name").and_then(|x| x.as_str()).unwrap_or("").to_string();
                let cases = s.get("cases").and_then(|x| x.as_u64()).unwrap_or(0);
                let calls = s.get("calls").and_then(|x| x.as_u64()).unwrap_or(0);
                let wall = match s.get("wall_s") {
                    Some(Json::F(f)) => *f,
                    Some(Json::U(u)) => *u as f64,
                    _ => 0.0,
                };
                if let Some(e) = self.spaces.iter_mut().find(|e| e.name == name) {
                    e.cases += cases;
                    e.calls += calls;
                    e.wall_s = e.wall_s.max(wall);
                } else {
                    self.spaces.push(Space { name, cases, calls, wall_s: wall, exhaustive: true, note: s.get("note").and_then(|x| x.as_str()).unwrap_or("").to_string() });
                }
            }
        }
    }

    /// Merges the report of the same property run in the other build profile (a child process).
    pub fn merge_child(&mut self, j: &Json) {
        let prof = j.get("profile").and_then(|p| p.as_str()).unwrap_or("child").to_string();
        self.profiles.push(prof.clone());
        let g = |k: &str| j.get(k).and_then(|x| x.as_u64()).unwrap_or(0);
        self.states += g("states");
        self.transitions += g("transitions");
        self.compared += g("compared");
        self.evaluations += g("evaluations");
        // distinct_nontrivial is NOT added: the child explores the same inputs in another build profile
        self.viol_count += g("viol_count");
        if let Some(vs) = j.get("viols").and_then(|v| v.as_arr()) {
            for v in vs {
                if let Ok(v) = Violation::from_json(v) {
                    self.push_violation(v);
                }
            }
        }
        if let Some(h) = j.get("hist").and_then(|h| h.as_obj()) {
            for (k, v) in h {
                self.hist.insert(format!("{}:{}", prof, k), Json::U(v.as_u64().unwrap_or(0)).as_u64().unwrap());
            }
        }
        if let Some(gs) = j.get("guards").and_then(|g| g.as_arr()) {
            for g in gs {
                if let Some(a) = g.as_arr() {
                    self.guards.push((format!("{}:{}", prof, a[0].as_str().unwrap_or("")), a[1].as_bool().unwrap_or(false), a[2].as_str().unwrap_or("").to_string()));
                }
            }
        }
        if let Some(sp) = j.get("spaces").and_then(|s| s.as_arr()) {
            for s in sp {
                self.spaces.push(Space {
                    name: format!("{}:{}", prof, s.get("name").and_then(|x| x.as_str()).unwrap_or("")),
                    cases: s.get("cases").and_then(|x| x.as_u64()).unwrap_or(0),
                    calls: s.get("calls").and_then(|x| x.as_u64()).unwrap_or(0),
                    wall_s: match s.get("wall_s") {
                        Some(Json::F(f)) => *f,
                        Some(Json::U(u)) => *u as f64,
                        _ => 0.0,
                    },
                    exhaustive: s.get("exhaustive").and_then(|x| x.as_bool()).unwrap_or(true),
                    note: s.get("note").and_then(|x| x.as_str()).unwrap_or("").to_string(),
                });
            }
        }
        self.extra.push((format!("{}_panics_observed", prof), Json::U(g("panics_observed"))));
    }
}

fn space_json(s: &Space) -> Json {
    Json::obj()
        .with("name", Json::s(s.name.clone()))
        .with("cases", Json::U(s.cases))
        .with("calls", Json::U(s.calls))
        .with("wall_s", Json::F(s.wall_s))
        .with("exhaustive", Json::Bool(s.exhaustive))
        .with("note", Json::s(s.note.clone()))
}

pub struct Known {
    pub property: String,
    pub class: String,
    pub text: String,
}

/// known_findings.txt: `known: property=<id> class=<finding class> -- <what fails>` suppresses (as a
/// KNOWN-FINDING line) exactly the violations of that class; `fixed:` lines are history and suppress nothing.
pub fn load_known(dir: &Path) -> Vec<Known> {
    let mut v = Vec::new();
    if let Ok(t) = std::fs::read_to_string(dir.join("known_findings.txt")) {
        for line in t.lines() {
            let line = line.trim();
            if let Some(rest) = line.strip_prefix("known:") {
                let mut property = String::new();
                let mut class = String::new();
                for tok in rest.split_whitespace() {
                    if let Some(p) = tok.strip_prefix("property=") {
                        property = p.to_string();
                    } else if let Some(c) = tok.strip_prefix("class=") {
                        class = c.to_string();
                    }
                }
                let text = rest.split_once("--").map(|x| x.1.trim().to_string()).unwrap_or_default();
                if !property.is_empty() && !class.is_empty() {
                    v.push(Known { property, class, text });
                }
            }
        }
    }
    v
}

static UNREPRODUCED: std::sync::Mutex<Vec<String>> = std::sync::Mutex::new(Vec::new());
pub fn note_unreproduced(msg: &str) {
    let mut u = UNREPRODUCED.lock().unwrap();
    if u.len() < 64 {
        u.push(msg.to_string());
    }
}

fn fnv(s: &str) -> u64 {
    let mut h: u64 = 0xcbf29ce484222325;
    for b in s.bytes() {
        h ^= b as u64;
        h = h.wrapping_mul(0x100000001b3);
    }
    h
}

/// Ends a run: known findings, replay files, VIOLATION lines, evidence, exit code.
/// Moves recorded non-reproducible mismatches into the report (idempotent).
pub fn absorb_unreproduced(rep: &mut Report) {
    for msg in UNREPRODUCED.lock().unwrap().drain(..) {
        rep.violate(Violation {
            class: "result-not-reproducible".into(),
            case: Case::text("unreproduced", &msg, &[]),
            expected: "the same result whenever the same call is repeated".into(),
            observed: format!("{} - a wrong result was observed once and not on re-execution: the result depends on something other than the input", msg),
            profile: profile_name().to_string(),
            trace: Vec::new(),
        });
    }
}

pub fn finish(mut rep: Report) -> ! {
    absorb_unreproduced(&mut rep);
    let known = load_known(&verif_dir());
    let dir = out_dir();
    let mut unknown: Vec<&Violation> = Vec::new();
    let mut known_hit: BTreeMap<String, (u64, String)> = BTreeMap::new();
    for v in &rep.viols {
        if let Some(k) = known.iter().find(|k| k.property == rep.id && k.class == v.class) {
            known_hit.entry(k.class.clone()).or_insert((0, k.text.clone())).0 += 1;
        } else {
            unknown.push(v);
        }
    }
    // viol_count counts every violating case; the stored list is capped, so "all known" can only be
    // concluded when every stored class is known AND nothing was dropped from an unknown class (classes are
    // never dropped: the first violation of each class is always stored, see Acc::violate/merge).
    for (class, (n, text)) in &known_hit {
        println!("KNOWN-FINDING: property={} class={} {} (stored cases of this class in this run: {})", rep.id, class, text, n);
    }
    let mut replay_paths = Vec::new();
    let mut seen_classes: Vec<String> = Vec::new();
    let _ = std::fs::create_dir_all(dir.join("replays"));
    for v in &unknown {
        if seen_classes.iter().filter(|c| **c == v.class).count() >= 2 || replay_paths.len() >= 12 {
            continue;
        }
        seen_classes.push(v.class.clone());
        let j = v.to_json(&rep.id, rep.tier.name());
        let name = format!("{}-{:016x}.json", rep.id, fnv(&j.to_string_compact()));
        let path = dir.join("replays").join(name);
        if std::fs::write(&path, j.to_string_pretty()).is_err() {
            monitor::machinery_fail("cannot write replay file");
        }
        println!("VIOLATION property={} replay={}", rep.id, path.display());
        println!("  class={} profile={} case={} expected: {} observed: {}", v.class, v.profile, v.case.to_json().to_string_compact(), v.expected, v.observed);
        for t in &v.trace {
            println!("    trace: {}", t);
        }
        replay_paths.push(path);
    }
    let failed_guards: Vec<&(String, bool, String)> = rep.guards.iter().filter(|g| !g.1).collect();
    let unknown_count = unknown.len() as u64;
    write_evidence(&rep, &dir, unknown_count, &known_hit);
    if !unknown.is_empty() {
        println!("[{}] {} violating cases in total ({} stored, {} not covered by known findings)", rep.id, rep.viol_count, rep.viols.len(), unknown.len());
        std::process::exit(1);
    }
    if !failed_guards.is_empty() {
        for g in &failed_guards {
            println!("MACHINERY-ERROR: vacuity guard '{}' failed: {}", g.0, g.2);
        }
        std::process::exit(2);
    }
    println!(
        "[{}] held on everything explored: tier={} profiles={:?} states={} transitions={} distinct_nontrivial={} wall={:.1}s",
        rep.id,
        rep.tier.name(),
        rep.profiles,
        rep.states,
        rep.transitions,
        rep.distinct_nontrivial,
        rep.started.elapsed().as_secs_f64()
    );
    std::process::exit(0);
}

fn write_evidence(rep: &Report, dir: &Path, unknown: u64, known_hit: &BTreeMap<String, (u64, String)>) {
    let mut samples = rep.samples.clone();
    if samples.is_empty() {
        samples.push(Json::s("no sample recorded"));
    }
    let mut cov = Json::obj()
        .with("states", Json::U(rep.states))
        .with("transitions", Json::U(rep.transitions))
        .with("traces_validated_against_impl", Json::U(rep.compared))
        .with("evaluations", Json::U(rep.evaluations))
        .with("distinct_nontrivial", Json::U(rep.distinct_nontrivial))
        .with("rule", Json::s(rep.rule.clone()))
        .with("exhaustive", Json::Bool(rep.exhaustive && rep.spaces.iter().all(|s| s.exhaustive)))
        .with("bound", Json::s(rep.bound.clone()))
        .with("samples", Json::A(samples))
        .with("build_profiles", Json::A(rep.profiles.iter().map(|p| Json::s(p.clone())).collect()))
        .with("spaces", Json::A(rep.spaces.iter().map(space_json).collect()))
        .with("histograms", Json::O(rep.hist.iter().map(|(k, v)| (k.clone(), Json::U(*v))).collect()))
        .with("vacuity_guards", Json::A(rep.guards.iter().map(|g| Json::obj().with("guard", Json::s(g.0.clone())).with("ok", Json::Bool(g.1)).with("detail", Json::s(g.2.clone()))).collect()))
        .with("panics_observed_in_guarded_calls", Json::U(monitor::panics_observed()))
        .with("violating_cases_total", Json::U(rep.viol_count))
        .with("known_findings_matched", Json::O(known_hit.iter().map(|(k, v)| (k.clone(), Json::U(v.0))).collect()));
    for (k, v) in &rep.extra {
        cov.set(k.clone(), v.clone());
    }
    let ev = Json::obj()
        .with("property_id", Json::s(rep.id.clone()))
        .with("tier", Json::s(rep.tier.name()))
        .with("seed", Json::U(rep.seed))
        .with("level", Json::s("model_checking"))
        .with("coverage", cov)
        .with("assumptions", Json::A(rep.assumptions.iter().map(|a| Json::s(a.clone())).collect()))
        .with("wall_s", Json::F(rep.started.elapsed().as_secs_f64()))
        .with("violations", Json::U(unknown));
    let _ = std::fs::create_dir_all(dir.join("evidence"));
    let path = dir.join("evidence").join(format!("{}.json", rep.id));
    let tmp = dir.join("evidence").join(format!(".{}.json.tmp", rep.id));
    if std::fs::write(&tmp, ev.to_string_pretty()).is_err() || std::fs::rename(&tmp, &path).is_err() {
        monitor::machinery_fail("cannot write evidence file");
    }
}
