//! C04 - validated ranking yields 0 exactly for non-hands, for any 32-bit words.
//!
//! Spaces
//!   quick:    the per-word recogniser on all 2^32 words (through `CardNumber::filter` and through the validity of a
//!             two-slot hand whose other slot is fixed); all arrangements of sizes 2..7 over a 12-word alphabet
//!             (7 real cards >= hand size, so every equality pattern and every relative order occurs; blank; four
//!             near-miss words); the duplicate family (every size, every slot pair, every card) and every card
//!             in every slot of an otherwise valid hand; EVERY valid five-, six- and seven-card hand (canonical
//!             order): reported valid, validated value == unvalidated value == oracle
//!   thorough: additionally every size x every slot x all 2^32 words in that slot of an otherwise valid hand
//!             (27 sweeps), all arrangements over a 16-word alphabet, both build profiles
//! Oracle: valid <=> all slots are layout words and pairwise distinct; validated value = 0 <=> not valid, else the
//! unvalidated value and the rule-derived best-of-n ordinal.
use super::hands::AnyHand;
use super::{confirm_mismatch, oracle, sample_json, Ctx};
use crate::engine::enumerate::{par_parts, tuple_decode};
use crate::engine::evidence::{Acc, Case, Report, Verdict};
use crate::engine::monitor::{self, guard};
use crate::oracle::cards::{deck, is_card_word, show_words, word_to_card, Card};
use ckc_rs::CardNumber;
use std::time::Instant;

const PAIR_FLAG: u32 = 1 << 29;

fn valid_model(w: &[u32]) -> bool {
    w.iter().all(|x| is_card_word(*x)) && (0..w.len()).all(|i| (0..i).all(|j| w[i] != w[j]))
}
fn best_model(w: &[u32]) -> u16 {
    let cards: Vec<Card> = w.iter().map(|x| word_to_card(*x).unwrap()).collect();
    oracle().best_by_rules(&cards)
}

/// Case kinds: "filter" (one word), "<size>.<is_valid|is_corrupt|contain_blank|are_unique|hand_rank_value_validated|hand_rank_validated.value>",
/// "evaluate.five_cards".
pub fn judge(case: &Case) -> Verdict {
    let w = case.w32s();
    if case.kind == "filter" {
        if w.len() != 1 {
            return Verdict::NotJudged("filter takes one word".into());
        }
        let exp = if is_card_word(w[0]) { w[0] } else { 0 };
        return match guard(|| (CardNumber::filter(w[0]), <u32 as ckc_rs::PokerCard>::filter(w[0]))) {
            Err(p) => Verdict::Violated { class: "panic:filter".into(), expected: format!("{:#x}", exp), observed: format!("panic: {}", p) },
            Ok((a, b)) if a != exp || b != exp => Verdict::Violated {
                class: if exp == 0 { "filter-accepts-non-card".into() } else { "filter-rejects-card".into() },
                expected: format!("{:#x} for word {:#x}", exp, w[0]),
                observed: format!("CardNumber::filter {:#x}, PokerCard::filter {:#x}", a, b),
            },
            Ok(_) => Verdict::Holds,
        };
    }
    if case.kind == "evaluate.five_cards" {
        if w.len() != 5 {
            return Verdict::NotJudged("five words".into());
        }
        let valid = valid_model(&w);
        // the statement: 0 exactly when not valid, otherwise the same value as unvalidated ranking (whether THAT value is
        // the right poker ordinal is C01's business, not this property's)
        return match guard(|| (ckc_rs::evaluate::five_cards([w[0], w[1], w[2], w[3], w[4]]), AnyHand::from_words(&w).value())) {
            Err(p) => Verdict::Violated { class: "panic:evaluate.five_cards".into(), expected: "normal return".into(), observed: format!("panic: {}", p) },
            Ok((v, _)) if !valid && v != 0 => Verdict::Violated { class: "evaluate.five_cards:nonzero-on-invalid-hand".into(), expected: format!("0 for {}", show_words(&w)), observed: format!("{}", v) },
            Ok((v, u)) if valid && (v == 0 || Some(v) != u) => Verdict::Violated { class: format!("evaluate.five_cards:{}", if v == 0 { "zero-on-valid-hand" } else { "differs-from-unvalidated" }), expected: format!("the non-zero unvalidated value {:?} for {}", u, show_words(&w)), observed: format!("{}", v) },
            Ok(_) => Verdict::Holds,
        };
    }
    let (size, what) = match case.kind.split_once('.') {
        Some(x) => x,
        None => return Verdict::NotJudged("bad kind".into()),
    };
    let n = match AnyHand::size_of_name(size) {
        Some(n) if n == w.len() => n,
        _ => return Verdict::NotJudged("size/word count mismatch".into()),
    };
    let valid = valid_model(&w);
    let all_cards = w.iter().all(|x| is_card_word(*x));
    let h = AnyHand::from_words(&w);
    let shown = show_words(&w);
    let boolean = |name: &str, exp: bool, f: &dyn Fn() -> bool| -> Verdict {
        match guard(f) {
            Err(p) => Verdict::Violated { class: format!("panic:{}", case.kind), expected: format!("{}", exp), observed: format!("panic: {}", p) },
            Ok(b) if b != exp => Verdict::Violated { class: format!("{}.{}:reported-{}", size, name, b), expected: format!("{} = {} for [{}]", name, exp, shown), observed: format!("{}", b) },
            Ok(_) => Verdict::Holds,
        }
    };
    match what {
        "is_valid" => boolean("is_valid", valid, &|| h.is_valid()),
        // is_corrupt / contain_blank are helpers the statement names only through is_valid: they are judged where its
        // wording leaves no choice (a hand of distinct real cards is not corrupt and contains no blank) and nowhere else
        // (a refactoring may move the duplicate test from are_unique into is_corrupt, or count blanks as corrupt or not)
        "is_corrupt" | "contain_blank" => {
            if !valid {
                return Verdict::NotJudged("the statement determines this helper on valid hands only".into());
            }
            if what == "is_corrupt" {
                boolean("is_corrupt", false, &|| h.is_corrupt())
            } else {
                boolean("contain_blank", false, &|| h.contain_blank())
            }
        }
        "are_unique" => {
            if !all_cards {
                return Verdict::NotJudged("are_unique is only determined by the statement on hands of real cards".into());
            }
            boolean("are_unique", valid, &|| h.are_unique())
        }
        "hand_rank_value_validated" | "hand_rank_validated.value" => {
            if n < 5 {
                return Verdict::NotJudged("no ranking below five slots".into());
            }
            // 0 exactly when not valid; otherwise the same (non-zero) value as unvalidated ranking - not compared with the
            // poker oracle here: a tree whose ranking is wrong but whose validated and unvalidated paths agree violates
            // C01/C02, not this property
            match guard(|| (h.rank_entry(what), h.value())) {
                Err(p) => Verdict::Violated { class: format!("panic:{}", case.kind), expected: "normal return".into(), observed: format!("panic: {}", p) },
                Ok((Some(v), _)) if !valid && v != 0 => Verdict::Violated { class: format!("{}:nonzero-on-invalid-hand", case.kind), expected: format!("0 for [{}]", shown), observed: format!("{}", v) },
                Ok((Some(v), u)) if valid && (v == 0 || Some(v) != u) => Verdict::Violated {
                    class: format!("{}:{}", case.kind, if v == 0 { "zero-on-valid-hand" } else { "differs-from-unvalidated" }),
                    expected: format!("the non-zero value of unvalidated ranking, {:?}, for [{}]", u, shown),
                    observed: format!("{}", v),
                },
                Ok(_) => Verdict::Holds,
            }
        }
        _ => Verdict::NotJudged(format!("unknown observation {}", what)),
    }
}

/// Checks one whole hand (fast path); on any discrepancy re-judges every observation through `judge`.
#[inline]
fn check_hand(acc: &mut Acc, w: &[u32], with_rank: bool) {
    let n = w.len();
    let all_cards = w.iter().all(|x| is_card_word(*x));
    let mut uniq = true;
    for i in 1..n {
        for j in 0..i {
            if w[i] == w[j] {
                uniq = false;
            }
        }
    }
    let valid = all_cards && uniq;
    let r = guard(|| {
        let h = AnyHand::from_words(w);
        let mut bad = h.is_valid() != valid;
        if valid {
            bad |= h.is_corrupt() || h.contain_blank();
        }
        if all_cards {
            bad |= h.are_unique() != valid;
        }
        let mut calls = 4;
        if with_rank && n >= 5 {
            let v = h.value_validated().unwrap();
            calls += 2;
            let v2 = h.rank_entry("hand_rank_validated.value").unwrap();
            if valid {
                let u = h.value().unwrap();
                bad |= v == 0 || v != u || v2 != u;
                calls += 1;
            } else {
                bad |= v != 0 || v2 != 0;
            }
            if n == 5 {
                bad |= ckc_rs::evaluate::five_cards([w[0], w[1], w[2], w[3], w[4]]) != v;
                calls += 1;
            }
        }
        (bad, calls)
    });
    acc.cases += 1;
    if valid {
        acc.hist[0] += 1;
    } else {
        acc.hist[1] += 1;
        if all_cards {
            acc.hist[2] += 1; // invalid only because of a duplicate
        }
    }
    match r {
        Ok((false, c)) => acc.calls += c,
        _ => {
            let size = AnyHand::size_name(n);
            let mut found = false;
            let mut kinds: Vec<String> = ["is_valid", "is_corrupt", "contain_blank", "are_unique"].iter().map(|k| format!("{}.{}", size, k)).collect();
            if with_rank && n >= 5 {
                kinds.push(format!("{}.hand_rank_value_validated", size));
                kinds.push(format!("{}.hand_rank_validated.value", size));
                if n == 5 {
                    kinds.push("evaluate.five_cards".into());
                }
            }
            for k in kinds {
                if let Some(v) = super::confirm(judge, Case::w32(&k, w)) {
                    found = true;
                    acc.violate(v);
                }
            }
            if !found {
                super::unreproduced(&format!("C04 fast path mismatch on {:?} not reproduced by the judge", w));
            }
        }
    }
}

fn alphabet(thorough: bool, seed: u64) -> Vec<u32> {
    let d = deck();
    // 7 real cards spread over suits and ranks (rotated by the seed), then blank and near-miss words
    let rot = (seed % 52) as usize;
    let picks = [0usize, 1, 13, 26, 39, 51, 30];
    let mut al: Vec<u32> = picks.iter().map(|i| d[(i + rot) % 52].word()).collect();
    let a = al[0];
    al.extend_from_slice(&[0, a ^ 1, a | PAIR_FLAG, u32::MAX, 23]);
    if thorough {
        // two suit bits, rank bit of another rank, 1, top bit
        al.extend_from_slice(&[a | 0x4000 | 0x8000 | 0x1000, a ^ (1 << 16) ^ (1 << 17), 1, 0x8000_0000]);
    }
    al
}

pub fn run(ctx: &Ctx, rep: &mut Report) {
    let d = deck();
    let thorough = ctx.tier.thorough();

    // (1) per-word recogniser, all 2^32 words
    {
        let t0 = Instant::now();
        let kind = monitor::kind_id("filter");
        let ace = d[0].word();
        let accs = par_parts(256, |p| {
            let mut acc = Acc::new(3);
            let lo = (p as u64) << 24;
            monitor::beat(kind, &[lo]);
            let mut cards = 0u64;
            let mut bad_first: Option<u32> = None;
            let mut nbad = 0u64;
            let r = guard(|| {
                for x in lo..lo + (1 << 24) {
                    let w = x as u32;
                    let is = is_card_word(w);
                    cards += is as u64;
                    let f = CardNumber::filter(w);
                    let v = AnyHand::from_words(&[w, ace]).is_valid();
                    if f != if is { w } else { 0 } || v != (is && w != ace) {
                        nbad += 1;
                        if bad_first.is_none() {
                            bad_first = Some(w);
                        }
                    }
                }
            });
            acc.cases += 1 << 24;
            acc.calls += 2 << 24;
            acc.nontrivial += cards;
            acc.hist[0] += cards;
            if r.is_err() || nbad > 0 {
                // slow path over the block, exact attribution
                let mut stored = 0;
                for x in lo..lo + (1 << 24) {
                    let w = x as u32;
                    for (k, ws) in [("filter", vec![w]), ("two.is_valid", vec![w, ace])] {
                        if stored < 8 {
                            if let Some(v) = super::confirm(judge, Case::w32(k, &ws)) {
                                acc.violate(v);
                                stored += 1;
                            }
                        }
                    }
                }
                if stored == 0 {
                    super::unreproduced("C04 recogniser mismatch not reproduced");
                }
                acc.viol_count = acc.viol_count.max(nbad);
            }
            acc
        });
        let acc = Acc::merged(accs);
        rep.guard("recogniser sweep met exactly 52 card words", acc.hist[0] == 52, format!("{}", acc.hist[0]));
        rep.add_space("2^32 words: filter + validity of [w, A♠]", &acc, t0, "every 32-bit word through the card recogniser and as the free slot of a two-slot hand");
    }

    // (2) all arrangements over the alphabet
    let kind = monitor::kind_id("arrangement");
    for n in 2..=7usize {
        // 16 words everywhere in thorough; in quick 16 words up to six slots and 12 words for seven
        let al = alphabet(thorough || n <= 6, ctx.seed);
        let t0 = Instant::now();
        let total = (al.len() as u64).pow(n as u32);
        let nparts = 64.min(total as usize);
        let accs = par_parts(nparts, |p| {
            let mut acc = Acc::new(3);
            let lo = total * p as u64 / nparts as u64;
            let hi = total * (p as u64 + 1) / nparts as u64;
            let mut idx = vec![0usize; n];
            let mut w = vec![0u32; n];
            for t in lo..hi {
                tuple_decode(t, al.len() as u64, &mut idx);
                for i in 0..n {
                    w[i] = al[idx[i]];
                }
                if t % 4096 == 0 {
                    let w64: Vec<u64> = w.iter().map(|x| *x as u64).collect();
                    monitor::beat(kind, &w64);
                }
                check_hand(&mut acc, &w, true);
            }
            acc
        });
        let mut acc = Acc::merged(accs);
        acc.nontrivial = acc.hist[0] + acc.hist[2]; // valid hands and hands that are invalid only by a duplicate
        rep.hist_add(&format!("arrangements_n{}:valid", n), acc.hist[0]);
        rep.hist_add(&format!("arrangements_n{}:invalid", n), acc.hist[1]);
        rep.hist_add(&format!("arrangements_n{}:invalid_only_by_duplicate", n), acc.hist[2]);
        rep.guard(&format!("arrangements n={}: both valid and invalid hands explored", n), acc.hist[0] > 0 && acc.hist[2] > 0 && acc.hist[1] > acc.hist[2], format!("{:?}", &acc.hist));
        if n == 7 {
            let w: Vec<u32> = al[..7].to_vec();
            rep.sample(sample_json("seven.hand_rank_value_validated", &show_words(&w), &format!("{:?}", AnyHand::from_words(&w).value_validated())));
            let mut w2 = w.clone();
            w2[6] = w2[2];
            rep.sample(sample_json("seven.hand_rank_value_validated (duplicate in slots 3 and 7)", &show_words(&w2), &format!("{:?}", AnyHand::from_words(&w2).value_validated())));
        }
        rep.add_space(&format!("all {}^{} arrangements, size {}", al.len(), n, n), &acc, t0, "every arrangement of the alphabet: every equality pattern, every relative order, blanks and near-miss words in every slot");
    }

    // (3) duplicate family and every card in every slot
    {
        let t0 = Instant::now();
        let mut acc = Acc::new(3);
        let rot = (ctx.seed as usize) % 52;
        for n in 2..=7usize {
            for i in 0..n {
                for j in i + 1..n {
                    for c in 0..52usize {
                        // fillers: distinct cards different from c
                        let mut w = vec![0u32; n];
                        let mut f = rot;
                        for (s, slot) in w.iter_mut().enumerate() {
                            if s == i || s == j {
                                *slot = d[c].word();
                            } else {
                                while f % 52 == c {
                                    f += 1;
                                }
                                *slot = d[f % 52].word();
                                f += 1;
                                while f % 52 == c {
                                    f += 1;
                                }
                            }
                        }
                        check_hand(&mut acc, &w, true);
                    }
                }
                for c in 0..52usize {
                    let mut w = vec![0u32; n];
                    let mut f = rot;
                    for (s, slot) in w.iter_mut().enumerate() {
                        if s == i {
                            *slot = d[c].word();
                        } else {
                            while f % 52 == c {
                                f += 1;
                            }
                            *slot = d[f % 52].word();
                            f += 1;
                        }
                    }
                    check_hand(&mut acc, &w, true);
                }
            }
        }
        acc.nontrivial = acc.cases;
        rep.guard("duplicate family: valid and duplicate-only-invalid hands both present", acc.hist[0] > 0 && acc.hist[2] > 0, format!("{:?}", acc.hist));
        rep.add_space("duplicate family + every card in every slot", &acc, t0, "every size, every slot pair holding the same card (each of the 52), remaining slots distinct cards; every card in every slot of an otherwise valid hand");
    }

    // (3a) two-slot near-miss family: two slots simultaneously hold near-misses of their cards (each single-bit flip, each
    //      multiples-flag combination, blank, all-ones), every slot pair of every size - covers interactions between two
    //      corrupt words that a one-free-slot sweep cannot
    {
        let t0 = Instant::now();
        let kind = monitor::kind_id("two-slot-near-miss");
        let mut jobs = Vec::new();
        for n in 2..=7usize {
            for i in 0..n {
                for j in i + 1..n {
                    jobs.push((n, i, j));
                }
            }
        }
        let accs = par_parts(jobs.len(), |ji| {
            let (n, i, j) = jobs[ji];
            let mut acc = Acc::new(3);
            let base: Vec<u32> = (0..n).map(|s| d[(s * 9 + 3 + ctx.seed as usize) % 52].word()).collect();
            let near = |c: u32| -> Vec<u32> {
                let mut v: Vec<u32> = (0..32).map(|k| c ^ (1 << k)).collect();
                v.extend((1..8u32).map(|m| c | (m << 29)));
                v.extend([0, u32::MAX, c]);
                v
            };
            let (ni, nj) = (near(base[i]), near(base[j]));
            monitor::beat(kind, &[n as u64, i as u64, j as u64]);
            let mut w = base.clone();
            for a in &ni {
                for b in &nj {
                    w[i] = *a;
                    w[j] = *b;
                    check_hand(&mut acc, &w, true);
                    // and the two near-misses of the SAME card in both slots
                    w[j] = *a;
                    check_hand(&mut acc, &w, true);
                }
            }
            acc
        });
        let mut acc = Acc::merged(accs);
        acc.nontrivial = acc.hist[0] + acc.hist[2];
        rep.add_space("two-slot near-miss family: every size, every slot pair, 42 x 42 near-misses of the two cards", &acc, t0, "single-bit flips, flag combinations, blank, all-ones and the card itself, in two slots at once");
    }

    // (3b) every valid hand of five, six and seven cards (canonical order): reported valid, and validated ranking equals
    //      unvalidated ranking equals the rule-derived best-of-n ordinal
    for n in 5..=7usize {
        let t0 = Instant::now();
        let kind = monitor::kind_id("valid-hand");
        let mut parts = Vec::new();
        for a in 0..52usize {
            for b in a + 1..52 {
                if b + (n - 2) < 52 {
                    parts.push((a, b));
                }
            }
        }
        let accs = par_parts(parts.len(), |pi| {
            let (a, b) = parts[pi];
            let mut acc = Acc::new(3);
            let mut w = vec![0u32; n];
            let mut cs = vec![Card(0); n];
            crate::engine::enumerate::combos_prefix(52, n, &[a, b], &mut |idx| {
                for i in 0..n {
                    cs[i] = d[idx[i]];
                    w[i] = cs[i].word();
                }
                let w64: Vec<u64> = w.iter().map(|x| *x as u64).collect();
                monitor::beat(kind, &w64);
                acc.cases += 1;
                acc.hist[0] += 1;
                // valid, validated value non-zero and equal to the unvalidated value through every entry point (that this
                // value is the right poker ordinal is C01's / C02's sweep, not this property's)
                acc.calls += 4;
                let ok = matches!(guard(|| {
                    let h = AnyHand::from_words(&w);
                    (h.is_valid(), h.value_validated().unwrap(), h.rank_entry("hand_rank_validated.value").unwrap(), h.value().unwrap())
                }), Ok((true, v1, v2, v3)) if v1 != 0 && v1 == v2 && v1 == v3);
                if !ok {
                    let size = AnyHand::size_name(n);
                    let mut found = false;
                    for k in ["is_valid", "are_unique", "is_corrupt", "hand_rank_value_validated", "hand_rank_validated.value"] {
                        if let Some(v) = super::confirm(judge, Case::w32(&format!("{}.{}", size, k), &w)) {
                            found = true;
                            acc.violate(v);
                        }
                    }
                    if !found {
                        super::unreproduced(&format!("C04 valid-hand mismatch on {:?} not reproduced by the judge", w));
                    }
                }
            });
            acc
        });
        let mut acc = Acc::merged(accs);
        acc.nontrivial = acc.cases;
        rep.guard(&format!("all C(52,{}) valid hands visited", n), acc.cases == crate::engine::enumerate::choose(52, n as u64), format!("{}", acc.cases));
        rep.add_space(&format!("every valid {}-card hand (canonical order): valid, validated == unvalidated != 0", n), &acc, t0, "the complete set of hands that must NOT rank 0");
    }

    // (3c) call histories over a small alphabet of hands (valid, duplicate, corrupt, blank) and observations
    {
        let al = alphabet(false, ctx.seed);
        let mut items = Vec::new();
        for n in [2usize, 5, 6, 7] {
            let valid: Vec<u32> = al[..n].to_vec();
            let mut dup = valid.clone();
            dup[n - 1] = dup[0];
            let mut corrupt = valid.clone();
            corrupt[n / 2] = al[9];
            let mut blank = valid.clone();
            blank[0] = 0;
            let mut rev = valid.clone();
            rev.reverse();
            for h in [valid, dup, corrupt, blank, rev] {
                let size = AnyHand::size_name(n);
                items.push(Case::w32(&format!("{}.is_valid", size), &h));
                if n >= 5 {
                    items.push(Case::w32(&format!("{}.hand_rank_value_validated", size), &h));
                }
            }
        }
        super::history2(rep, judge, &items);
    }

    // (4) thorough: every slot x all 2^32 words
    if thorough {
        let kind = monitor::kind_id("one-free-slot");
        for n in 2..=7usize {
            for slot in 0..n {
                let t0 = Instant::now();
                let base: Vec<u32> = (0..n).map(|s| d[(s * 9 + 3 + ctx.seed as usize) % 52].word()).collect();
                let accs = par_parts(1024, |p| {
                    let mut acc = Acc::new(3);
                    let lo = (p as u64) << 22;
                    let mut w = base.clone();
                    monitor::beat(kind, &[n as u64, slot as u64, lo]);
                    for x in lo..lo + (1 << 22) {
                        w[slot] = x as u32;
                        check_hand(&mut acc, &w, true);
                    }
                    acc
                });
                let mut acc = Acc::merged(accs);
                acc.nontrivial = acc.hist[0] + acc.hist[2];
                rep.guard(&format!("free slot {} of {}: exactly 52-{} valid completions and {} duplicate ones", slot, n, n - 1, n - 1), acc.hist[0] == (52 - (n as u64 - 1)) && acc.hist[2] == n as u64 - 1, format!("{:?}", acc.hist));
                rep.add_space(&format!("size {} slot {} x all 2^32 words", n, slot), &acc, t0, "one slot takes every 32-bit value, the other slots hold distinct real cards");
            }
        }
    }
    rep.rule = "distinct hands (word arrays) of sizes 2..7; non-trivial = valid hands plus hands that are invalid only because of a duplicate (the cases the uniqueness tests must separate); for the recogniser sweep the 52 words that must be accepted".into();
    rep.bound = if thorough {
        "one free slot x all 2^32 words (every size, every slot) + all arrangements over a 16-word alphabet; simultaneous arbitrary words in two or more slots beyond the alphabet are outside".into()
    } else {
        "2^32 words through the recogniser and one free slot of Two; all arrangements over a 12-word alphabet for sizes 2..7; the duplicate family".into()
    };
    rep.assume("are_unique is judged only on hands of real cards (where the statement determines it); is_corrupt / contain_blank are judged on valid hands only (both false there); elsewhere the statement leaves them open");
    let _ = oracle();
}
