//! stub
use super::Ctx;
use crate::engine::evidence::{Case, Report, Verdict};
pub fn run(_ctx: &Ctx, _rep: &mut Report) {
    crate::engine::monitor::machinery_fail("not implemented");
}
pub fn judge(_case: &Case) -> Verdict {
    Verdict::NotJudged("not implemented".into())
}
