//! C19 - hand containers store and return exactly the words put into them.
//!
//! E2 (explicit-state graph per size n = 2..7, the real setters as the transition function):
//!   word alphabet W = {0, ace of spades, the same with the pair flag, 0xFFFFFFFF, 0x1FFFFFFF, king of hearts}
//!   (thorough: + the ace with all three flags) - closed under adding / stripping the top three bits; states = all |W|^n
//!   containers, every one also an initial state built by every public constructor form (From<[u32; N]>, new,
//!   From<&[u32; 2]>, Default + setters, Three(pub ..), Six::from_1_and_2_and_3, Seven::new(Two, Five));
//!   actions = every setter x every w in W (|W| n actions). The invariant "real container == shadow array" is read
//!   through to_arr, first()..seventh(), iter(), == with a freshly constructed container and every other
//!   constructor form; each edge must change exactly the named slot. The graph is closed under the actions, so the
//!   invariant holds for EVERY setter history of any length over W, and states reached by setters are compared with
//!   the same states constructed directly (differential oracle).
//! E1: every setter x a word family (all 16-bit patterns at shifts 0 and 16; thorough: ALL 2^32 words) from two base
//!   states; five_from_permutation for every in-range index tuple (6^5 + 7^5) on containers with distinct slots.
use super::hands::AnyHand;
use super::{confirm, sample_json, Ctx};
use crate::engine::enumerate::{par_parts, tuple_decode};
use crate::engine::evidence::{profile_name, Acc, Case, Report, Verdict, Violation};
use crate::engine::explore::Bfs;
use crate::engine::monitor::{self, guard};
use crate::oracle::cards::Card;
use ckc_rs::cards::seven::Seven;
use ckc_rs::cards::six::Six;
use ckc_rs::cards::Permutator;
use std::time::Instant;

fn alphabet(thorough: bool) -> Vec<u32> {
    // closed under "the same word with / without its top three (multiples) bits": a setter that compares the new word
    // with a normalised form of the stored one misbehaves exactly on such pairs
    let a = Card::new(12, 3).word();
    let mut v = vec![0, a, a | (1 << 29), u32::MAX, u32::MAX >> 3, Card::new(11, 2).word()];
    if thorough {
        v.push(a | (7 << 29));
    }
    v
}

#[derive(Clone, Debug, PartialEq, Eq, Hash)]
struct St {
    real: AnyHand,
    shadow: Vec<u32>,
}

fn invariant(s: &St) -> Result<(), String> {
    let n = s.shadow.len();
    let r = guard(|| {
        let arr = s.real.to_vec();
        let acc: Vec<u32> = (0..n).map(|i| s.real.get(i)).collect();
        let it = s.real.iter_vec();
        let fresh_equal = AnyHand::from_words(&s.shadow) == s.real;
        let forms: Vec<(&'static str, bool)> = AnyHand::constructor_forms(&s.shadow).into_iter().map(|(name, h)| (name, h == s.real && h.to_vec() == s.shadow)).collect();
        (arr, acc, it, fresh_equal, forms)
    });
    match r {
        Err(p) => Err(format!("panic: {}", p)),
        Ok((arr, acc, it, fresh_equal, forms)) => {
            if arr != s.shadow {
                return Err(format!("to_arr: {:x?}, the array model holds {:x?}", arr, s.shadow));
            }
            if acc != s.shadow {
                let i = (0..n).find(|i| acc[*i] != s.shadow[*i]).unwrap();
                return Err(format!("accessor-{}: {:#x}, the array model holds {:#x} in that slot", AnyHand::SLOT_NAMES[i], acc[i], s.shadow[i]));
            }
            if it != s.shadow {
                return Err(format!("iter: {:x?}, the array model holds {:x?}", it, s.shadow));
            }
            if !fresh_equal {
                return Err("eq: differs from a container freshly constructed from the same words".into());
            }
            if let Some((name, _)) = forms.iter().find(|f| !f.1) {
                return Err(format!("constructor-{}: does not store the given words in the given slots {:x?}", name, s.shadow));
            }
            Ok(())
        }
    }
}

fn step(s: &St, a: &(usize, u32)) -> Result<St, String> {
    let (slot, w) = *a;
    let real = guard(|| s.real.set(slot, w)).map_err(|p| format!("panic in set_{}: {}", AnyHand::SLOT_NAMES[slot], p))?;
    let mut shadow = s.shadow.clone();
    shadow[slot] = w;
    let got = real.to_vec();
    if got != shadow {
        let changed: Vec<usize> = (0..shadow.len()).filter(|i| got[*i] != s.shadow[*i]).collect();
        return Err(format!("setter-{}: set_{}({:#x}) on {:x?} gave {:x?} (slots changed: {:?}), expected {:x?}", AnyHand::SLOT_NAMES[slot], AnyHand::SLOT_NAMES[slot], w, s.shadow, got, changed, shadow));
    }
    Ok(St { real, shadow })
}

/// Case kinds:
///   "history"     [n, n initial words, then (slot, word) pairs]
///   "setter-word" [n, slot, word, n base words]
///   "permutation" [n, p0..p4, n container words]
pub fn judge(case: &Case) -> Verdict {
    let w = &case.words;
    let n = w.first().copied().unwrap_or(0) as usize;
    if !(2..=7).contains(&n) {
        return Verdict::NotJudged("size 2..7".into());
    }
    match case.kind.as_str() {
        "history" => {
            if w.len() < 1 + n || (w.len() - 1 - n) % 2 != 0 {
                return Verdict::NotJudged("malformed history".into());
            }
            let init: Vec<u32> = w[1..1 + n].iter().map(|x| *x as u32).collect();
            let mut s = St { real: AnyHand::from_words(&init), shadow: init };
            let mut i = 1 + n;
            let mut k = 0;
            loop {
                if let Err(e) = invariant(&s) {
                    return Verdict::Violated { class: format!("{}:{}", AnyHand::size_name(n), e.split(':').next().unwrap_or("invariant")), expected: "container == array model".into(), observed: format!("after {} setter calls: {}", k, e) };
                }
                if i >= w.len() {
                    return Verdict::Holds;
                }
                let (slot, word) = (w[i] as usize, w[i + 1] as u32);
                if slot >= n {
                    return Verdict::NotJudged("slot out of range".into());
                }
                match step(&s, &(slot, word)) {
                    Ok(ns) => s = ns,
                    Err(e) => return Verdict::Violated { class: format!("{}:{}", AnyHand::size_name(n), e.split(':').next().unwrap_or("step")), expected: "the setter changes only the named slot".into(), observed: format!("setter call {}: {}", k + 1, e) },
                }
                i += 2;
                k += 1;
            }
        }
        "setter-word" => {
            if w.len() != 3 + n || w[1] as usize >= n {
                return Verdict::NotJudged("malformed".into());
            }
            let base: Vec<u32> = w[3..].iter().map(|x| *x as u32).collect();
            let s = St { real: AnyHand::from_words(&base), shadow: base };
            match step(&s, &(w[1] as usize, w[2] as u32)).and_then(|ns| invariant(&ns)) {
                Ok(()) => Verdict::Holds,
                Err(e) => Verdict::Violated { class: format!("{}:{}", AnyHand::size_name(n), e.split(':').next().unwrap_or("setter")), expected: "only the named slot takes the word".into(), observed: e },
            }
        }
        "permutation" => {
            if (n != 6 && n != 7) || w.len() != 6 + n || w[1..6].iter().any(|p| *p as usize >= n) {
                return Verdict::NotJudged("malformed".into());
            }
            let perm = [w[1] as u8, w[2] as u8, w[3] as u8, w[4] as u8, w[5] as u8];
            let cont: Vec<u32> = w[6..].iter().map(|x| *x as u32).collect();
            let exp: Vec<u32> = perm.iter().map(|p| cont[*p as usize]).collect();
            let r = guard(|| {
                if n == 6 {
                    Six::from([cont[0], cont[1], cont[2], cont[3], cont[4], cont[5]]).five_from_permutation(perm).to_arr().to_vec()
                } else {
                    Seven::from([cont[0], cont[1], cont[2], cont[3], cont[4], cont[5], cont[6]]).five_from_permutation(perm).to_arr().to_vec()
                }
            });
            match r {
                Err(p) => Verdict::Violated { class: format!("panic:{}:five_from_permutation", AnyHand::size_name(n)), expected: format!("{:x?}", exp), observed: format!("panic: {}", p) },
                Ok(got) if got != exp => {
                    let k = (0..5).find(|k| got[*k] != exp[*k]).unwrap();
                    Verdict::Violated { class: format!("{}:five_from_permutation:output-slot-{}", AnyHand::size_name(n), k + 1), expected: format!("slots {:?} of {:x?} = {:x?}", perm, cont, exp), observed: format!("{:x?}", got) }
                }
                Ok(_) => Verdict::Holds,
            }
        }
        _ => Verdict::NotJudged("unknown kind".into()),
    }
}

pub fn run(ctx: &Ctx, rep: &mut Report) {
    let wal = alphabet(ctx.tier.thorough());
    let k = wal.len() as u64;
    // E2
    for n in 2..=7usize {
        let t0 = Instant::now();
        let total = k.pow(n as u32);
        let mut inits = Vec::new();
        let mut idx = vec![0usize; n];
        for t in 0..total {
            tuple_decode(t, k, &mut idx);
            let w: Vec<u32> = idx.iter().map(|i| wal[*i]).collect();
            inits.push((St { real: AnyHand::from_words(&w), shadow: w.clone() }, format!("From<[u32; {}]>({:x?})", n, w)));
        }
        // the default container must be the all-blank state
        let dflt = AnyHand::default_of(n);
        inits.push((St { real: dflt, shadow: vec![0; n] }, "Default".into()));
        let mut actions = Vec::new();
        for slot in 0..n {
            for w in &wal {
                actions.push((slot, *w));
            }
        }
        let label = |a: &(usize, u32)| format!("set_{}({:#x})", AnyHand::SLOT_NAMES[a.0], a.1);
        let ex = Bfs { inits, actions: &actions, step: &step, invariant: &invariant, label: &label, max_states: total }.run();
        let mut acc = Acc::new(1);
        acc.cases = ex.states;
        acc.calls = ex.transitions + ex.states * (n as u64 + 5);
        acc.nontrivial = ex.states;
        rep.hist_add(&format!("graph_n{}:states", n), ex.states);
        rep.hist_add(&format!("graph_n{}:transitions", n), ex.transitions);
        rep.hist_add(&format!("graph_n{}:setter_reached_states_equal_to_constructed_ones", n), ex.reconverged);
        if let Some((trace, why)) = &ex.violation {
            // replayable history: initial words from the init label are recovered by re-deriving the trace
            let mut codes: Vec<u64> = vec![n as u64];
            let init_words: Vec<u32> = if trace[0].contains("Default") {
                vec![0; n]
            } else {
                // parse the hex list out of the label
                trace[0].split('[').last().unwrap_or("").trim_end_matches(|c| c == ']' || c == ')').split(',').filter_map(|x| u32::from_str_radix(x.trim().trim_start_matches("0x"), 16).ok()).collect()
            };
            let init_words = if init_words.len() == n { init_words } else { vec![0; n] };
            codes.extend(init_words.iter().map(|x| *x as u64));
            for l in trace.iter().skip(1) {
                if let Some(a) = actions.iter().find(|a| label(a) == *l) {
                    codes.push(a.0 as u64);
                    codes.push(a.1 as u64);
                }
            }
            let case = Case::new("history", &codes);
            match confirm(judge, case.clone()) {
                Some(mut v) => {
                    v.trace = trace.clone();
                    acc.violate(v);
                }
                None => acc.violate(Violation { class: format!("{}:unreplayed", AnyHand::size_name(n)), case, expected: "container == array model".into(), observed: why.clone(), profile: profile_name().into(), trace: trace.clone() }),
            }
        } else {
            rep.guard(&format!("n={}: closed graph of exactly {}^{} states, all {} setter edges executed from each", n, k, n, k * n as u64), ex.states == total && ex.transitions == total * k * n as u64, format!("{} states {} transitions", ex.states, ex.transitions));
            rep.guard(&format!("n={}: every setter-reached state coincides with a constructed one", n), ex.reconverged > 0, format!("{}", ex.reconverged));
        }
        rep.add_space(&format!("E2: size {}: {}^{} states x {} setter actions, every constructor form", n, k, n, k * n as u64), &acc, t0, "closed graph: every setter history of any length over W");
    }
    // E1: every constructor that assembles a container from parts or from single words x every slot x ALL 2^32 words
    // (a sentinel value used internally by a constructor is one exact word out of 2^32)
    {
        let t0 = Instant::now();
        let kind = monitor::kind_id("constructor-word");
        // (form name, size)
        let forms: [(&str, usize); 5] = [("Two::new", 2), ("Three(pub [..])", 3), ("Five::new", 5), ("Six::from_1_and_2_and_3", 6), ("Seven::new(Two, Five)", 7)];
        let mut jobs = Vec::new();
        for (fi, (_, n)) in forms.iter().enumerate() {
            for slot in 0..*n {
                for chunk in 0..16u64 {
                    jobs.push((fi, slot, chunk));
                }
            }
        }
        let accs = par_parts(jobs.len(), |j| {
            let (fi, slot, chunk) = jobs[j];
            let (fname, n) = forms[fi];
            let mut acc = Acc::new(1);
            let base: Vec<u32> = (0..n).map(|i| 0x0101_0101u32.wrapping_mul(i as u32 + 1) ^ 0x00F0_0F00).collect();
            monitor::beat(kind, &[fi as u64, slot as u64, chunk]);
            let build = |w: &[u32]| -> Vec<u32> { AnyHand::constructor_forms(w).into_iter().find(|(name, _)| *name == fname).map(|(_, h)| h.to_vec()).unwrap_or_default() };
            // quick tier: the words x and x << 16 for every 16-bit x (2 blocks per chunk 0 only); thorough: all 2^32 words
            let thorough = ctx.tier.thorough();
            if !thorough && chunk > 0 {
                return acc;
            }
            let lo = chunk << 28;
            let mut blk = lo;
            let mut w = base.clone();
            let hi = if thorough { lo + (1 << 28) } else { 2 << 16 };
            while blk < hi {
                let r = guard(|| {
                    let mut bad = false;
                    let mut ww = [0u32; 7];
                    ww[..n].copy_from_slice(&base);
                    for x in blk..blk + (1 << 16) {
                        ww[slot] = if thorough || blk == 0 { x as u32 } else { (x as u32) << 16 };
                        // direct construction (no allocation in the hot loop)
                        let got: [u32; 7] = match fi {
                            0 => {
                                let t = ckc_rs::cards::two::Two::new(ww[0], ww[1]).to_arr();
                                [t[0], t[1], 0, 0, 0, 0, 0]
                            }
                            1 => {
                                let t = ckc_rs::cards::three::Three([ww[0], ww[1], ww[2]]).to_arr();
                                [t[0], t[1], t[2], 0, 0, 0, 0]
                            }
                            2 => {
                                let t = ckc_rs::cards::five::Five::new(ww[0], ww[1], ww[2], ww[3], ww[4]).to_arr();
                                [t[0], t[1], t[2], t[3], t[4], 0, 0]
                            }
                            3 => {
                                let t = Six::from_1_and_2_and_3(ww[0], ckc_rs::cards::two::Two::new(ww[1], ww[2]), ckc_rs::cards::three::Three([ww[3], ww[4], ww[5]])).to_arr();
                                [t[0], t[1], t[2], t[3], t[4], t[5], 0]
                            }
                            _ => Seven::new(ckc_rs::cards::two::Two::new(ww[0], ww[1]), ckc_rs::cards::five::Five::new(ww[2], ww[3], ww[4], ww[5], ww[6])).to_arr(),
                        };
                        bad |= got[..n] != ww[..n];
                    }
                    bad
                });
                if matches!(r, Ok(false)) {
                    acc.cases += 1 << 16;
                    acc.calls += 1 << 16;
                    acc.nontrivial += 1 << 16;
                } else {
                    for x in blk..blk + (1 << 16) {
                        w[slot] = if thorough || blk == 0 { x as u32 } else { (x as u32) << 16 };
                        acc.cases += 1;
                        acc.calls += 1;
                        let ok = matches!(guard(|| build(&w)), Ok(v) if v == w);
                        if !ok {
                            // replayable as a history whose initial words are these (the judge checks every constructor form)
                            let mut words = vec![n as u64];
                            words.extend(w.iter().map(|x| *x as u64));
                            match confirm(judge, Case::new("history", &words)) {
                                Some(v) => acc.violate(v),
                                None => super::unreproduced("C19 constructor mismatch not reproduced"),
                            }
                        }
                    }
                }
                blk += 1 << 16;
            }
            acc
        });
        let acc = Acc::merged(accs);
        rep.add_space(if ctx.tier.thorough() { "constructors from parts / single words (Two::new, Three(..), Five::new, Six::from_1_and_2_and_3, Seven::new) x every slot x ALL 2^32 words" } else { "constructors from parts / single words x every slot x all 16-bit patterns at shifts 0 and 16" }, &acc, t0, "the constructed container holds the given words in the given slots");
    }
    // E1: setters x word families
    {
        let t0 = Instant::now();
        let kind = monitor::kind_id("setter-word");
        let thorough = ctx.tier.thorough();
        let bases: [u32; 2] = [0, 0xA5A5_5A5A];
        let mut jobs = Vec::new();
        for n in 2..=7usize {
            for slot in 0..n {
                for b in 0..2 {
                    jobs.push((n, slot, b));
                }
            }
        }
        let chunks: u64 = if thorough { 64 } else { 1 };
        let accs = par_parts(jobs.len() * chunks as usize, |j| {
            let (n, slot, b) = jobs[j / chunks as usize];
            let chunk = (j as u64) % chunks;
            let mut acc = Acc::new(1);
            let base: Vec<u32> = (0..n).map(|i| bases[b].wrapping_add(i as u32 * 0x0101_0101)).collect();
            let h = AnyHand::from_words(&base);
            monitor::beat(kind, &[n as u64, slot as u64, chunk]);
            let mut one = |w: u32, acc: &mut Acc| {
                acc.cases += 1;
                acc.calls += 1;
                acc.nontrivial += 1;
                let ok = match guard(|| h.set(slot, w)) {
                    Ok(x) => {
                        let mut out = [0u32; 7];
                        x.write_to(&mut out[..n]);
                        (0..n).all(|i| out[i] == if i == slot { w } else { base[i] }) && x.get(slot) == w
                    }
                    Err(_) => false,
                };
                if !ok {
                    let mut words = vec![n as u64, slot as u64, w as u64];
                    words.extend(base.iter().map(|x| *x as u64));
                    match confirm(judge, Case::new("setter-word", &words)) {
                        Some(v) => acc.violate(v),
                        None => super::unreproduced("C19 setter mismatch not reproduced"),
                    }
                }
            };
            if thorough {
                // fast path: one guard per block of 2^16 words; any discrepancy re-runs the block word by word
                let lo = chunk << 26;
                let mut blk = lo;
                while blk < lo + (1 << 26) {
                    let r = guard(|| {
                        let mut bad = false;
                        for x in blk..blk + (1 << 16) {
                            let w = x as u32;
                            let y = h.set(slot, w);
                            let mut out = [0u32; 7];
                            y.write_to(&mut out[..n]);
                            for i in 0..n {
                                bad |= out[i] != if i == slot { w } else { base[i] };
                            }
                            bad |= y.get(slot) != w;
                        }
                        bad
                    });
                    if matches!(r, Ok(false)) {
                        acc.cases += 1 << 16;
                        acc.calls += 1 << 16;
                        acc.nontrivial += 1 << 16;
                    } else {
                        for x in blk..blk + (1 << 16) {
                            one(x as u32, &mut acc);
                        }
                    }
                    blk += 1 << 16;
                }
            } else {
                for x in 0..=0xFFFFu32 {
                    one(x, &mut acc);
                    one(x << 16, &mut acc);
                }
            }
            acc
        });
        let acc = Acc::merged(accs);
        rep.add_space(if thorough { "every setter (27) x ALL 2^32 words from two base states" } else { "every setter (27) x all 16-bit patterns at shifts 0 and 16, from two base states" }, &acc, t0, "only the named slot takes the word, every other slot keeps its content");
    }
    // five_from_permutation
    {
        let t0 = Instant::now();
        let mut acc = Acc::new(1);
        for n in [6usize, 7] {
          let distinct: Vec<u32> = (0..n).map(|i| Card::from_deck_index((i * 7 + 3 + ctx.seed as usize) % 52).word()).collect();
          // contents: distinct words; every pair of slots holding the same word; one blank; all slots equal
          let mut contents = vec![distinct.clone(), vec![distinct[0]; n]];
          for i in 0..n {
              for j in i + 1..n {
                  let mut c = distinct.clone();
                  c[j] = c[i];
                  contents.push(c);
              }
              let mut c = distinct.clone();
              c[i] = 0;
              contents.push(c);
          }
          for cont in contents {
            let total = (n as u64).pow(5);
            let mut idx = [0usize; 5];
            for t in 0..total {
                tuple_decode(t, n as u64, &mut idx);
                acc.cases += 1;
                acc.calls += 1;
                acc.nontrivial += 1;
                let mut words = vec![n as u64];
                words.extend(idx.iter().map(|x| *x as u64));
                words.extend(cont.iter().map(|x| *x as u64));
                if let Verdict::Violated { .. } = judge(&Case::new("permutation", &words)) {
                    if let Some(v) = confirm(judge, Case::new("permutation", &words)) {
                        acc.violate(v);
                    }
                }
            }
          }
        }
        rep.guard("(6^5) x 23 + (7^5) x 30 (index tuple, content) pairs", acc.cases == 7776 * 23 + 16807 * 30, format!("{}", acc.cases));
        rep.add_space("five_from_permutation: every in-range index tuple on Six and Seven x contents (distinct, each slot pair equal, one blank, all equal)", &acc, t0, "output slot k = input slot perm[k]");
    }
    {
        // sequences ACROSS containers: a setter history on one container followed by one on another (static state
        // shared between containers would leak here; histories on one container are the E2 graphs above)
        let mut items = Vec::new();
        for n in 2..=7u64 {
            let w = wal[1] as u64;
            let x = wal[4] as u64;
            let mut h = vec![n];
            h.extend(std::iter::repeat(0).take(n as usize));
            for slot in 0..n {
                h.push(slot);
                h.push(if slot % 2 == 0 { w } else { x });
            }
            items.push(Case::new("history", &h));
            let mut g = vec![n];
            g.extend((0..n).map(|i| if i % 2 == 0 { x } else { w }));
            g.extend([n - 1, x, n - 2, x, n - 1, w]);
            items.push(Case::new("history", &g));
        }
        for n in [6u64, 7] {
            for perm in [[0u64, 0, 0, 0, 4], [1, 3, 2, 4, 5], [0, 1, 2, 3, 4], [5, 4, 3, 2, 1]] {
                let mut p = vec![n];
                p.extend(perm);
                p.extend((0..n).map(|i| Card::from_deck_index((i * 7 + 3) as usize).word() as u64));
                items.push(Case::new("permutation", &p));
            }
        }
        super::history2(rep, judge, &items);
    }
    rep.sample(sample_json("history", "Seven::default(); set_seventh(0xffffffff); set_first(A♠)", &format!("{:x?}", AnyHand::default_of(7).set(6, u32::MAX).set(0, Card::new(12, 3).word()).to_vec())));
    rep.rule = "graph states (containers over W) and setter edges; distinct (setter, word, base) triples; distinct index tuples - all non-trivial (each is a distinct write or read pattern)".into();
    rep.bound = "every setter history of ANY length over a 6-word (thorough: 7-word) alphabet (closed graphs, n = 2..7); one free word per setter; every index tuple for five-slot selection".into();
    rep.assume("the state key is the complete observable content (to_arr), exact because the containers are plain Copy arrays with derived Eq");
}
