//! C08 - suit shifting is a rank-preserving 4-cycle and never changes a hand's value.
//!
//! Spaces
//!   card clause:  all 52 cards and blank (S->H->D->C->S, rank kept, four shifts = identity, blank fixed)
//!   slot-wise:    all tuples over S53 for sizes 2..4; size 5 all multisets x rotations (thorough: all 53^5 tuples);
//!                 sizes 6..7 all tuples over a 9-symbol alphabet plus the all-pairs family (every slot pair x
//!                 every pair of S53 symbols)
//!   value clause: all five-card hands under all 24 suit relabellings and under the crate's own three shifts; all
//!                 six-card hands under the three shifts; all seven-card hands under one shift (thorough: three
//!                 shifts, and all 24 relabellings for six and seven cards as well)
//! Oracle: slot-wise model shift built from the layout formula; value equality is relational (crate vs crate).
use super::hands::AnyHand;
use super::{confirm, sample_json, Ctx};
use crate::engine::enumerate::{combos_prefix, multisets_first, par_parts, permutations, tuple_decode};
use crate::engine::evidence::{Acc, Case, Report, Verdict};
use crate::engine::monitor::{self, guard};
use crate::oracle::cards::{deck, show_words, sigma53, word_to_card, Card};
use ckc_rs::Shifty;
use std::time::Instant;

fn model_shift(w: u32) -> Option<u32> {
    if w == 0 {
        return Some(0);
    }
    // spades(3) -> hearts(2) -> diamonds(1) -> clubs(0) -> spades(3)
    word_to_card(w).map(|c| Card::new(c.rank(), (c.suit() + 3) % 4).word())
}

fn suit_perms() -> Vec<[u8; 4]> {
    permutations(4).into_iter().map(|p| [p[0] as u8, p[1] as u8, p[2] as u8, p[3] as u8]).collect()
}

fn relabel(w: &[u32], p: &[u8; 4]) -> Option<Vec<u32>> {
    w.iter().map(|x| word_to_card(*x).map(|c| Card::new(c.rank(), p[c.suit() as usize]).word())).collect()
}

/// Case kinds: "card.shift" [w]; "<size>.shift_slotwise" [words]; "<size>.shift_value" [words] (k = 1..3 shifts all checked);
/// "<size>.relabel_value" [words..., permutation number 0..23].
pub fn judge(case: &Case) -> Verdict {
    if case.kind == "card.shift" {
        let w = case.words.first().copied().unwrap_or(0) as u32;
        let exp = match model_shift(w) {
            Some(e) => e,
            None => return Verdict::NotJudged("neither a real card nor blank".into()),
        };
        return match guard(|| {
            let s1 = w.shift_suit();
            (s1, s1.shift_suit().shift_suit().shift_suit())
        }) {
            Err(p) => Verdict::Violated { class: "panic:card.shift".into(), expected: show_words(&[exp]), observed: format!("panic: {}", p) },
            Ok((s1, s4)) if s1 != exp => Verdict::Violated { class: "card.shift:wrong-card".into(), expected: format!("{} -> {}", show_words(&[w]), show_words(&[exp])), observed: show_words(&[s1]) + &format!(" (four shifts give {})", show_words(&[s4])) },
            Ok((_, s4)) if s4 != w => Verdict::Violated { class: "card.shift:four-shifts-not-identity".into(), expected: show_words(&[w]), observed: show_words(&[s4]) },
            Ok(_) => Verdict::Holds,
        };
    }
    let (size, what) = match case.kind.split_once('.') {
        Some(x) => x,
        None => return Verdict::NotJudged("bad kind".into()),
    };
    let n = match AnyHand::size_of_name(size) {
        Some(n) => n,
        None => return Verdict::NotJudged("bad size".into()),
    };
    let all = case.w32s();
    if all.len() < n {
        return Verdict::NotJudged("too few words".into());
    }
    let w = &all[..n];
    match what {
        "shift_slotwise" => {
            let exp: Vec<u32> = match w.iter().map(|x| model_shift(*x)).collect() {
                Some(e) => e,
                None => return Verdict::NotJudged("a slot holds neither a card nor blank".into()),
            };
            match guard(|| AnyHand::from_words(w).shift_suit().to_vec()) {
                Err(p) => Verdict::Violated { class: format!("panic:{}", case.kind), expected: show_words(&exp), observed: format!("panic: {}", p) },
                Ok(got) if got != exp => {
                    let slot = (0..n).find(|i| got[*i] != exp[*i]).unwrap();
                    Verdict::Violated { class: format!("{}:slot-{}-not-shifted-correctly", case.kind, slot + 1), expected: format!("[{}] -> [{}]", show_words(w), show_words(&exp)), observed: format!("[{}]", show_words(&got)) }
                }
                Ok(_) => Verdict::Holds,
            }
        }
        "shift_value" => {
            if n < 5 || super::c01::distinct_cards(w).is_none() {
                return Verdict::NotJudged("value clause is about 5..7 distinct real cards".into());
            }
            match guard(|| {
                let h = AnyHand::from_words(w);
                let v0 = h.value().unwrap();
                let mut vs = Vec::new();
                let mut x = h;
                for _ in 0..3 {
                    x = x.shift_suit();
                    vs.push(x.value().unwrap());
                }
                (v0, vs)
            }) {
                Err(p) => Verdict::Violated { class: format!("panic:{}", case.kind), expected: "equal values".into(), observed: format!("panic: {}", p) },
                Ok((v0, vs)) if vs.iter().any(|v| *v != v0) => Verdict::Violated { class: format!("{}:value-changes-under-shift", case.kind), expected: format!("value {} of [{}] after 1, 2 and 3 shifts", v0, show_words(w)), observed: format!("{:?}", vs) },
                Ok(_) => Verdict::Holds,
            }
        }
        "relabel_value" => {
            if n < 5 || all.len() != n + 1 || all[n] >= 24 {
                return Verdict::NotJudged("needs the hand and a permutation number".into());
            }
            let p = suit_perms()[all[n] as usize];
            let r = match relabel(w, &p) {
                Some(r) if super::c01::distinct_cards(w).is_some() => r,
                _ => return Verdict::NotJudged("not distinct real cards".into()),
            };
            match guard(|| (AnyHand::from_words(w).value().unwrap(), AnyHand::from_words(&r).value().unwrap())) {
                Err(pn) => Verdict::Violated { class: format!("panic:{}", case.kind), expected: "equal values".into(), observed: format!("panic: {}", pn) },
                Ok((a, b)) if a != b => Verdict::Violated { class: format!("{}:value-depends-on-suit-labels", case.kind), expected: format!("[{}] and [{}] (suits relabelled by {:?}) rank the same", show_words(w), show_words(&r), p), observed: format!("{} vs {}", a, b) },
                Ok(_) => Verdict::Holds,
            }
        }
        _ => Verdict::NotJudged("unknown observation".into()),
    }
}

fn slotwise(acc: &mut Acc, w: &[u32]) {
    acc.cases += 1;
    acc.calls += 1;
    let n = w.len();
    let ok = match guard(|| AnyHand::from_words(w).shift_suit()) {
        Ok(h) => {
            let mut out = [0u32; 7];
            h.write_to(&mut out[..n]);
            (0..n).all(|i| Some(out[i]) == model_shift(w[i]))
        }
        Err(_) => false,
    };
    if !ok {
        match confirm(judge, Case::w32(&format!("{}.shift_slotwise", AnyHand::size_name(n)), w)) {
            Some(v) => acc.violate(v),
            None => super::unreproduced("C08 slot-wise mismatch not reproduced"),
        }
    }
}

fn value_space(ctx: &Ctx, rep: &mut Report, n: usize, shifts: usize, relabels: bool) {
    let d = deck();
    let size = AnyHand::size_name(n);
    let perms = suit_perms();
    let mut parts = Vec::new();
    for a in 0..52usize {
        for b in a + 1..52 {
            if b + (n - 2) < 52 {
                parts.push((a, b));
            }
        }
    }
    let kind = monitor::kind_id(&format!("{}.shift_value", size));
    let t0 = Instant::now();
    let accs = par_parts(parts.len(), |pi| {
        let (a, b) = parts[pi];
        let mut acc = Acc::new(1);
        let mut cs = vec![Card(0); n];
        let mut w = vec![0u32; n];
        let mut r = vec![0u32; n];
        combos_prefix(52, n, &[a, b], &mut |idx| {
            for i in 0..n {
                cs[i] = d[idx[i]];
                w[i] = cs[i].word();
            }
            let w64: Vec<u64> = w.iter().map(|x| *x as u64).collect();
            monitor::beat(kind, &w64);
            acc.cases += 1;
            let suits_used = cs.iter().fold(0u8, |m, c| m | 1 << c.suit()).count_ones();
            if suits_used < 4 {
                acc.nontrivial += 1;
            }
            let res = guard(|| {
                let h = AnyHand::from_words(&w);
                let v0 = h.value().unwrap();
                let mut ok = true;
                let mut x = h;
                for _ in 0..shifts {
                    x = x.shift_suit();
                    ok &= x.value().unwrap() == v0;
                }
                ok
            });
            acc.calls += 1 + 2 * shifts as u64;
            if !matches!(res, Ok(true)) {
                match confirm(judge, Case::w32(&format!("{}.shift_value", size), &w)) {
                    Some(v) => acc.violate(v),
                    None => super::unreproduced("C08 value mismatch not reproduced"),
                }
            }
            if relabels {
                let v0 = guard(|| AnyHand::from_words(&w).value().unwrap());
                for (pn, p) in perms.iter().enumerate().skip(1) {
                    for i in 0..n {
                        r[i] = Card::new(cs[i].rank(), p[cs[i].suit() as usize]).word();
                    }
                    acc.calls += 1;
                    let v = guard(|| AnyHand::from_words(&r).value().unwrap());
                    if v.is_err() || v != v0 {
                        let mut ws = w.clone();
                        ws.push(pn as u32);
                        match confirm(judge, Case::w32(&format!("{}.relabel_value", size), &ws)) {
                            Some(v) => acc.violate(v),
                            None => super::unreproduced("C08 relabel mismatch not reproduced"),
                        }
                    }
                }
            }
            if acc.samples.is_empty() && (pi as u64 + ctx.seed) % 173 == 0 {
                let h = AnyHand::from_words(&w);
                acc.samples.push(sample_json(&format!("{}.shift_value", size), &show_words(&w), &format!("value {:?}; shifted [{}] value {:?}", h.value(), show_words(&h.shift_suit().to_vec()), h.shift_suit().value())));
            }
        });
        acc
    });
    let acc = Acc::merged(accs);
    rep.add_space(&format!("{}H: value under {} shift(s){}", n, shifts, if relabels { " and all 24 suit relabellings" } else { "" }), &acc, t0, "relational: crate value before vs after");
}

fn probe_items() -> Vec<Vec<u32>> {
    // six- and seven-card hands that are flushes / straight flushes in each suit, and their off-suit neighbours
    let mut v = Vec::new();
    for s in 0..4u8 {
        for top in [12u8, 11, 9, 6] {
            let six: Vec<u32> = (0..6).map(|i| Card::new(top - i, s).word()).collect();
            let mut seven = six.clone();
            seven.push(Card::new(0, (s + 1) % 4).word());
            let mut broken = six.clone();
            broken[5] = Card::new(top - 5, (s + 2) % 4).word();
            v.push(six);
            v.push(seven);
            v.push(broken);
        }
    }
    v
}

pub fn run(ctx: &Ctx, rep: &mut Report) {
    if ctx.probe {
        let items = probe_items();
        super::probe_body(rep, items.len(), &|i| {
            let w = &items[i];
            confirm(judge, Case::w32(&format!("{}.shift_value", AnyHand::size_name(w.len())), w)).map(|mut v| {
                v.class = format!("cold-start:{}", v.class);
                v
            })
        });
        return;
    }
    let thorough = ctx.tier.thorough();
    // card clause
    {
        let t0 = Instant::now();
        let mut acc = Acc::new(1);
        for i in 0..53 {
            acc.cases += 1;
            acc.calls += 4;
            acc.nontrivial += (i < 52) as u64;
            if let Some(v) = confirm(judge, Case::w32("card.shift", &[sigma53(i)])) {
                acc.violate(v);
            }
        }
        let a = sigma53(0);
        rep.sample(sample_json("card.shift", &show_words(&[a]), &show_words(&[a.shift_suit(), a.shift_suit().shift_suit(), a.shift_suit().shift_suit().shift_suit(), a.shift_suit().shift_suit().shift_suit().shift_suit()])));
        rep.add_space("52 cards + blank: shift is the 4-cycle S->H->D->C->S", &acc, t0, "");
    }
    // slot-wise clause: sizes 2..4 all tuples over S53
    let kind = monitor::kind_id("shift_slotwise");
    for n in 2..=4usize {
        let t0 = Instant::now();
        let total = 53u64.pow(n as u32);
        let nparts = 53usize;
        let accs = par_parts(nparts, |p| {
            let mut acc = Acc::new(1);
            let mut idx = vec![0usize; n];
            let mut w = vec![0u32; n];
            for t in (total * p as u64 / nparts as u64)..(total * (p as u64 + 1) / nparts as u64) {
                tuple_decode(t, 53, &mut idx);
                for i in 0..n {
                    w[i] = sigma53(idx[i]);
                }
                if t % 1024 == 0 {
                    monitor::beat(kind, &[n as u64, t]);
                }
                slotwise(&mut acc, &w);
            }
            acc
        });
        let mut acc = Acc::merged(accs);
        acc.nontrivial = acc.cases;
        rep.add_space(&format!("slot-wise: all 53^{} tuples over S53, size {}", n, n), &acc, t0, "every card-or-blank content of every slot");
    }
    // size 5
    {
        let t0 = Instant::now();
        let accs = if thorough {
            let total = 53u64.pow(5);
            par_parts(53 * 53, |p| {
                let mut acc = Acc::new(1);
                let mut idx = [0usize; 5];
                let mut w = [0u32; 5];
                for t in (total * p as u64 / 2809)..(total * (p as u64 + 1) / 2809) {
                    tuple_decode(t, 53, &mut idx);
                    for i in 0..5 {
                        w[i] = sigma53(idx[i]);
                    }
                    if t % 1024 == 0 {
                        monitor::beat(kind, &[5, t]);
                    }
                    slotwise(&mut acc, &w);
                }
                acc
            })
        } else {
            par_parts(53, |first| {
                let mut acc = Acc::new(1);
                multisets_first(53, 5, first, &mut |idx| {
                    let base = [sigma53(idx[0]), sigma53(idx[1]), sigma53(idx[2]), sigma53(idx[3]), sigma53(idx[4])];
                    for b in 0..5 {
                        let mut w = [0u32; 5];
                        for i in 0..5 {
                            w[(i + b) % 5] = base[i];
                        }
                        slotwise(&mut acc, &w);
                    }
                });
                monitor::tick();
                acc
            })
        };
        let mut acc = Acc::merged(accs);
        acc.nontrivial = acc.cases;
        rep.add_space(if thorough { "slot-wise: all 53^5 tuples, size 5" } else { "slot-wise: all five-slot multisets over S53 x 5 rotations" }, &acc, t0, "");
    }
    // sizes 6..7: all tuples over a 9-symbol alphabet + all-pairs family
    for n in 6..=7usize {
        let t0 = Instant::now();
        let c = |r: u8, s: u8| Card::new(r, s).word();
        let r1 = (ctx.seed % 13) as u8;
        let r2 = ((ctx.seed / 13 + 5) % 13) as u8;
        let r2 = if r2 == r1 { (r1 + 1) % 13 } else { r2 };
        let al = [c(r1, 0), c(r1, 1), c(r1, 2), c(r1, 3), c(r2, 0), c(r2, 1), c(r2, 2), c(r2, 3), 0];
        let total = 9u64.pow(n as u32);
        let accs = par_parts(81, |p| {
            let mut acc = Acc::new(1);
            let mut idx = vec![0usize; n];
            let mut w = vec![0u32; n];
            for t in (total * p as u64 / 81)..(total * (p as u64 + 1) / 81) {
                tuple_decode(t, 9, &mut idx);
                for i in 0..n {
                    w[i] = al[idx[i]];
                }
                if t % 1024 == 0 {
                    monitor::beat(kind, &[n as u64, t]);
                }
                slotwise(&mut acc, &w);
            }
            acc
        });
        let mut acc = Acc::merged(accs);
        // all-pairs family
        let d = deck();
        for i in 0..n {
            for j in i + 1..n {
                for x in 0..53 {
                    for y in 0..53 {
                        let mut w: Vec<u32> = (0..n).map(|s| d[(s * 7 + 2) % 52].word()).collect();
                        w[i] = sigma53(x);
                        w[j] = sigma53(y);
                        slotwise(&mut acc, &w);
                    }
                }
            }
        }
        acc.nontrivial = acc.cases;
        rep.add_space(&format!("slot-wise: all 9^{} tuples over two ranks x four suits + blank, plus every slot pair x every S53 symbol pair, size {}", n, n), &acc, t0, "");
    }
    // call histories
    {
        let d = deck();
        let mut items: Vec<Case> = (0..53).step_by(4).map(|i| Case::w32("card.shift", &[sigma53(i)])).collect();
        for n in 2..=7usize {
            for k in 0..4usize {
                let mut w: Vec<u32> = (0..n).map(|i| d[(k * 13 + i * 3 + n) % 52].word()).collect();
                items.push(Case::w32(&format!("{}.shift_slotwise", AnyHand::size_name(n)), &w));
                if n >= 5 {
                    items.push(Case::w32(&format!("{}.shift_value", AnyHand::size_name(n)), &w));
                }
                w[k % n] = 0;
                items.push(Case::w32(&format!("{}.shift_slotwise", AnyHand::size_name(n)), &w));
            }
        }
        super::history2(rep, judge, &items);
    }
    // value clause on two small sub-decks: every 6/7-card hand x the covering family of slot orders (P6 / P7: every pair
    // of cards meets every pair of slots) x all 24 suit relabellings (a suit-position shortcut can commute with the
    // cyclic shift and still depend on which suit sits where)
    for n in [6usize, 7] {
        let t0 = Instant::now();
        let orders: Vec<Vec<usize>> = if n == 6 { crate::engine::enumerate::p6().into_iter().map(|p| p.to_vec()).collect() } else { crate::engine::enumerate::p7().into_iter().map(|p| p.to_vec()).collect() };
        let perms = suit_perms();
        let mut acc_total = Acc::new(1);
        for (_name, cards) in super::c02::small_sub_decks() {
            let hands = crate::engine::enumerate::combos(cards.len(), n);
            let accs = par_parts(hands.len(), |hi| {
                let mut acc = Acc::new(1);
                let base: Vec<u32> = hands[hi].iter().map(|i| cards[*i].word()).collect();
                let mut w = vec![0u32; n];
                for ord in &orders {
                    for i in 0..n {
                        w[ord[i]] = base[i];
                    }
                    let v0 = guard(|| AnyHand::from_words(&w).value().unwrap());
                    for (pn, p) in perms.iter().enumerate().skip(1) {
                        acc.cases += 1;
                        acc.calls += 1;
                        acc.nontrivial += 1;
                        let r = relabel(&w, p).unwrap();
                        let v = guard(|| AnyHand::from_words(&r).value().unwrap());
                        if v.is_err() || v != v0 {
                            let mut ws = w.clone();
                            ws.push(pn as u32);
                            match confirm(judge, Case::w32(&format!("{}.relabel_value", AnyHand::size_name(n)), &ws)) {
                                Some(v) => acc.violate(v),
                                None => super::unreproduced("C08 sub-deck relabel mismatch not reproduced"),
                            }
                        }
                    }
                }
                acc
            });
            acc_total.merge(Acc::merged(accs));
        }
        rep.add_space(&format!("value under all 24 suit relabellings: every {}-card hand of two 12-card sub-decks x {} covering slot orders", n, orders.len()), &acc_total, t0, "relational: crate value before vs after relabelling, in slot orders that put every card pair on every slot pair");
    }
    // schedule sample: threads making their first calls at the same moment in fresh processes (supplementary, see mod.rs)
    if !ctx.child || !ctx.lean {
        super::cold_start_probe(ctx, rep, if thorough { 24 } else { 8 });
    }
    // value clause
    value_space(ctx, rep, 5, 3, true);
    value_space(ctx, rep, 6, 3, thorough);
    value_space(ctx, rep, 7, if thorough { 3 } else { 1 }, thorough);
    rep.rule = "distinct inputs (cards, ordered hands, (hand, relabelling) pairs); non-trivial for the value clause = hands that do not use all four suits (a relabelling really changes which suits are present); every slot-wise input is non-trivial".into();
    rep.bound = if thorough {
        "cards complete; slot-wise complete for sizes 2..5, bounded alphabet + all slot pairs for 6..7; value clause: every 5/6/7-card hand under all shifts and all 24 relabellings (canonical slot order)".into()
    } else {
        "cards complete; slot-wise complete for sizes 2..4, multisets x rotations for 5, bounded alphabet + all slot pairs for 6..7; value clause: 5H x 24 relabellings and 3 shifts, 6H x 3 shifts, 7H x 1 shift".into()
    };
}
