//! C17 - starting-hand score equals the Chen formula for every two-card hand.
//!
//! Spaces: all 52 x 51 ordered pairs of distinct cards (the whole domain), all 52 cards for the per-card points;
//! slot-order swap and the three suit shifts for the invariance clause. Runs in both build profiles (the gap helper
//! subtracts ranks as u8). Oracle: Chen's formula in integer half-points (oracle::misc).
use super::{confirm, sample_json, Ctx};
use crate::engine::evidence::{Acc, Case, Report, Verdict};
use crate::engine::monitor::guard;
use crate::oracle::cards::{deck, show_words, word_to_card};
use crate::oracle::misc::{chen, chen_points_x2};
use ckc_rs::cards::two::Two;
use ckc_rs::{PokerCard, Shifty};
use std::time::Instant;

/// Case kinds: "pair" [word a, word b]; "points" [word].
pub fn judge(case: &Case) -> Verdict {
    let w = case.w32s();
    if case.kind == "points" {
        let c = match w.first().and_then(|x| word_to_card(*x)) {
            Some(c) => c,
            None => return Verdict::NotJudged("a real card".into()),
        };
        let exp = chen_points_x2(c.rank()) as f32 / 2.0;
        return match guard(|| w[0].get_chen_points()) {
            Ok(p) if p == exp => Verdict::Holds,
            Ok(p) => Verdict::Violated { class: "points:wrong".into(), expected: format!("{} for {}", exp, show_words(&w[..1])), observed: format!("{}", p) },
            Err(p) => Verdict::Violated { class: "panic:points".into(), expected: format!("{}", exp), observed: format!("panic: {}", p) },
        };
    }
    if case.kind != "pair" || w.len() != 2 {
        return Verdict::NotJudged("unknown kind".into());
    }
    let (a, b) = match (word_to_card(w[0]), word_to_card(w[1])) {
        (Some(a), Some(b)) if a != b => (a, b),
        _ => return Verdict::NotJudged("two distinct real cards".into()),
    };
    let hi = a.rank().max(b.rank());
    let lo = a.rank().min(b.rank());
    let exp = chen(a, b);
    let shown = show_words(&w);
    let r = guard(|| {
        let t = Two::new(w[0], w[1]);
        let s1 = t.shift_suit();
        let s2 = s1.shift_suit();
        let s3 = s2.shift_suit();
        (t.chen_formula() as i32, t.is_pocket_pair(), t.is_suited(), t.get_gap(), t.is_connector(), t.is_suited_connector(), t.high_card(), Two::new(w[1], w[0]).chen_formula() as i32, [s1.chen_formula() as i32, s2.chen_formula() as i32, s3.chen_formula() as i32])
    });
    let (score, pp, suited, gap, conn, sconn, hc, swapped, shifted) = match r {
        Err(p) => return Verdict::Violated { class: "panic:pair".into(), expected: format!("score {} for {}", exp, shown), observed: format!("panic: {}", p) },
        Ok(x) => x,
    };
    if score != exp {
        let shape = if hi == lo { "pair".to_string() } else { format!("gap-{}", (hi - lo - 1).min(4)) };
        return Verdict::Violated { class: format!("score:wrong:{}{}", shape, if a.suit() == b.suit() { ":suited" } else { "" }), expected: format!("Chen score {} for {}", exp, shown), observed: format!("{}", score) };
    }
    if pp != (hi == lo) {
        return Verdict::Violated { class: "is_pocket_pair".into(), expected: format!("{} for {}", hi == lo, shown), observed: format!("{}", pp) };
    }
    if suited != (a.suit() == b.suit()) {
        return Verdict::Violated { class: "is_suited".into(), expected: format!("{} for {}", a.suit() == b.suit(), shown), observed: format!("{}", suited) };
    }
    if hi != lo {
        let g = hi - lo - 1;
        if gap != g {
            return Verdict::Violated { class: "get_gap".into(), expected: format!("{} ranks strictly between, for {}", g, shown), observed: format!("{}", gap) };
        }
        if conn != (g == 0) {
            return Verdict::Violated { class: "is_connector".into(), expected: format!("{} for {}", g == 0, shown), observed: format!("{}", conn) };
        }
        if sconn != (g == 0 && a.suit() == b.suit()) {
            return Verdict::Violated { class: "is_suited_connector".into(), expected: format!("{} for {}", g == 0 && a.suit() == b.suit(), shown), observed: format!("{}", sconn) };
        }
    }
    // high card: one of the two cards, of the maximal rank (for a pair either card is accepted)
    let hc_ok = (hc == w[0] || hc == w[1]) && word_to_card(hc).map(|c| c.rank()) == Some(hi);
    if !hc_ok {
        return Verdict::Violated { class: "high_card".into(), expected: format!("the card of {} with the higher rank", shown), observed: show_words(&[hc]) };
    }
    if swapped != exp {
        return Verdict::Violated { class: "score:depends-on-slot-order".into(), expected: format!("{} for both orders of {}", exp, shown), observed: format!("{}", swapped) };
    }
    if shifted.iter().any(|s| *s != exp) {
        return Verdict::Violated { class: "score:depends-on-suit-shift".into(), expected: format!("{} after 1, 2, 3 shifts of {}", exp, shown), observed: format!("{:?}", shifted) };
    }
    Verdict::Holds
}

pub fn run(_ctx: &Ctx, rep: &mut Report) {
    let d = deck();
    let t0 = Instant::now();
    let mut acc = Acc::new(64);
    for a in &d {
        for b in &d {
            if a == b {
                continue;
            }
            acc.cases += 1;
            acc.calls += 12;
            acc.nontrivial += 1;
            let e = chen(*a, *b);
            acc.hist[(e + 2) as usize] += 1;
            if let Some(v) = confirm(judge, Case::w32("pair", &[a.word(), b.word()])) {
                acc.violate(v);
            }
        }
    }
    for s in -1..=20i32 {
        if acc.hist[(s + 2) as usize] > 0 {
            rep.hist_add(&format!("ordered_pairs_with_oracle_score_{:+03}", s), acc.hist[(s + 2) as usize]);
        }
    }
    rep.guard("2,652 ordered pairs; scores from -1 (72o) to 20 (AA) occur", acc.cases == 2652 && acc.hist[1] > 0 && acc.hist[22] == 12, format!("{} pairs", acc.cases));
    rep.add_space("all 52 x 51 ordered pairs of distinct cards", &acc, t0, "score, five helpers, high card, slot swap, three suit shifts");
    let t0 = Instant::now();
    let mut acc = Acc::new(1);
    for c in &d {
        acc.cases += 1;
        acc.calls += 1;
        acc.nontrivial += 1;
        if let Some(v) = confirm(judge, Case::w32("points", &[c.word()])) {
            acc.violate(v);
        }
    }
    rep.add_space("per-card points of all 52 cards", &acc, t0, "");
    {
        // all ordered pairs of the 26 cards of two suits, as items: 650 items -> 422,500 ordered item pairs
        let two: Vec<u32> = d.iter().filter(|c| c.suit() >= 2).map(|c| c.word()).collect();
        let mut items = Vec::new();
        for a in &two {
            for b in &two {
                if a != b {
                    items.push(Case::w32("pair", &[*a, *b]));
                }
            }
        }
        super::history2(rep, judge, &items);
    }
    for (x, y) in [(0usize, 13usize), (0, 1), (45, 25), (9, 49)] {
        let t = Two::new(d[x].word(), d[y].word());
        rep.sample(sample_json("pair", &show_words(&[d[x].word(), d[y].word()]), &format!("crate {} oracle {} gap {} pair {} suited {}", t.chen_formula(), chen(d[x], d[y]), t.get_gap(), t.is_pocket_pair(), t.is_suited())));
    }
    rep.rule = "distinct ordered pairs of distinct cards, distinct cards; all are in the property's domain".into();
    rep.bound = "none: whole domain, in both build profiles".into();
}
