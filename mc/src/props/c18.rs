//! C18 - deck and published combination tables are complete and duplicate-free.
//!
//! Spaces: every entry of POKER_DECK, Two::{AA, AK, AKs, AKo, AQs, AQo}, Four::OMAHA_PERMUTATIONS,
//! Six/Seven::FIVE_CARD_PERMUTATIONS against oracle-generated combination sets; `Deck::get(i)` for every
//! i in 0..2^28 (thorough: 0..2^32) and every 2^k - 1, 2^k, 2^k + 1 up to usize::MAX.
use super::{confirm, sample_json, Ctx};
use crate::engine::enumerate::{combos, par_parts};
use crate::engine::evidence::{Acc, Case, Report, Verdict};
use crate::engine::monitor::{self, guard};
use crate::oracle::cards::{deck, show_word, show_words, Card};
use ckc_rs::cards::four::Four;
use ckc_rs::cards::seven::Seven;
use ckc_rs::cards::six::Six;
use ckc_rs::cards::two::Two;
use ckc_rs::deck::{Deck, POKER_DECK};
use std::time::Instant;

pub const TABLES: [&str; 10] = ["POKER_DECK", "Two::AA", "Two::AK", "Two::AKs", "Two::AKo", "Two::AQs", "Two::AQo", "Four::OMAHA_PERMUTATIONS", "Six::FIVE_CARD_PERMUTATIONS", "Seven::FIVE_CARD_PERMUTATIONS"];

/// every (ra, rb) two-card combination, higher card first; suited: Some(true/false) filters
fn two_combos(ra: u8, rb: u8, suited: Option<bool>) -> Vec<[u32; 2]> {
    let mut v = Vec::new();
    for sa in (0..4).rev() {
        for sb in (0..4).rev() {
            if ra == rb && sa <= sb {
                continue;
            }
            if let Some(su) = suited {
                if (sa == sb) != su {
                    continue;
                }
            }
            v.push([Card::new(ra, sa).word(), Card::new(rb, sb).word()]);
        }
    }
    v
}

fn check_two_table(name: &str, t: &[Two], expect: Vec<[u32; 2]>) -> Result<(), (String, String, String)> {
    let got: Vec<[u32; 2]> = t.iter().map(|x| x.to_arr()).collect();
    if got.len() != expect.len() {
        return Err(("wrong-length".into(), format!("{} holds {} hands", name, expect.len()), format!("{}", got.len())));
    }
    for (i, g) in got.iter().enumerate() {
        if g[0] <= g[1] {
            return Err(("higher-card-not-first".into(), format!("{}[{}] lists the higher card first", name, i), show_words(g)));
        }
        if got[..i].contains(g) {
            return Err(("duplicate-entry".into(), format!("{}[{}] occurs once", name, i), show_words(g)));
        }
        if !expect.contains(g) {
            return Err(("entry-not-of-the-described-kind".into(), format!("{}[{}] is one of the {} described combinations", name, i, expect.len()), show_words(g)));
        }
    }
    for e in &expect {
        if !got.contains(e) {
            return Err(("missing-combination".into(), format!("{} contains {}", name, show_words(e)), "absent".into()));
        }
    }
    Ok(())
}

fn check_index_table(name: &str, rows: Vec<Vec<u8>>, n: usize, k: usize) -> Result<(), (String, String, String)> {
    let expect: Vec<Vec<u8>> = combos(n, k).into_iter().map(|c| c.into_iter().map(|x| x as u8).collect()).collect();
    if rows.len() != expect.len() {
        return Err(("wrong-length".into(), format!("{} has C({},{}) = {} rows", name, n, k, expect.len()), format!("{}", rows.len())));
    }
    for (i, r) in rows.iter().enumerate() {
        if r.len() != k || !r.windows(2).all(|w| w[0] < w[1]) || r.iter().any(|x| *x as usize >= n) {
            return Err(("row-not-strictly-increasing-in-range".into(), format!("{}[{}] is a strictly increasing selection of {} slots below {}", name, i, k, n), format!("{:?}", r)));
        }
        if rows[..i].contains(r) {
            return Err(("duplicate-row".into(), format!("{}[{}] occurs once", name, i), format!("{:?}", r)));
        }
        if *r != expect[i] {
            return Err(("row-out-of-order-or-missing".into(), format!("{}[{}] = {:?} (increasing lexicographic order)", name, i, expect[i]), format!("{:?}", r)));
        }
    }
    Ok(())
}

/// Case kinds: "table" [table number]; "deck.get" [index].
pub fn judge(case: &Case) -> Verdict {
    let x = case.words.first().copied().unwrap_or(u64::MAX);
    match case.kind.as_str() {
        "deck.get" => {
            let i = x as usize;
            let exp = if i < 52 { deck()[i].word() } else { 0 };
            match guard(|| (Deck::get(i), Deck::len())) {
                Err(p) => Verdict::Violated { class: "panic:deck.get".into(), expected: show_word(exp), observed: format!("panic: {}", p) },
                Ok((_, l)) if l != 52 => Verdict::Violated { class: "deck.len".into(), expected: "52".into(), observed: format!("{}", l) },
                Ok((w, _)) if w != exp => Verdict::Violated { class: format!("deck.get:{}", if i < 52 { "wrong-card-in-range" } else { "not-blank-past-the-end" }), expected: format!("Deck::get({}) = {}", i, show_word(exp)), observed: show_word(w) },
                Ok(_) => Verdict::Holds,
            }
        }
        "table" => {
            if x as usize >= TABLES.len() {
                return Verdict::NotJudged("no such table".into());
            }
            let name = TABLES[x as usize];
            let r = guard(|| match x {
                0 => {
                    let arr = POKER_DECK.arr();
                    let d = deck();
                    for i in 0..52 {
                        if arr[i] != d[i].word() {
                            return Err(("wrong-card-at-position".to_string(), format!("POKER_DECK[{}] = {}", i, d[i].name()), show_word(arr[i])));
                        }
                    }
                    Ok(())
                }
                1 => check_two_table(name, &Two::AA, two_combos(12, 12, None)),
                2 => check_two_table(name, &Two::AK, two_combos(12, 11, None)),
                3 => check_two_table(name, &Two::AKs, two_combos(12, 11, Some(true))),
                4 => check_two_table(name, &Two::AKo, two_combos(12, 11, Some(false))),
                5 => check_two_table(name, &Two::AQs, two_combos(12, 10, Some(true))),
                6 => check_two_table(name, &Two::AQo, two_combos(12, 10, Some(false))),
                7 => check_index_table(name, Four::OMAHA_PERMUTATIONS.iter().map(|r| r.to_vec()).collect(), 4, 2),
                8 => check_index_table(name, Six::FIVE_CARD_PERMUTATIONS.iter().map(|r| r.to_vec()).collect(), 6, 5),
                _ => check_index_table(name, Seven::FIVE_CARD_PERMUTATIONS.iter().map(|r| r.to_vec()).collect(), 7, 5),
            });
            match r {
                Err(p) => Verdict::Violated { class: format!("panic:table:{}", name), expected: "a table".into(), observed: format!("panic: {}", p) },
                Ok(Ok(())) => Verdict::Holds,
                Ok(Err((class, expected, observed))) => Verdict::Violated { class: format!("{}:{}", name, class), expected, observed },
            }
        }
        _ => Verdict::NotJudged("unknown kind".into()),
    }
}

pub fn run(ctx: &Ctx, rep: &mut Report) {
    let t0 = Instant::now();
    let mut acc = Acc::new(1);
    let sizes = [52u64, 6, 16, 4, 12, 4, 12, 6, 6, 21];
    for t in 0..TABLES.len() as u64 {
        acc.cases += sizes[t as usize];
        acc.calls += 1;
        acc.nontrivial += sizes[t as usize];
        if let Some(v) = confirm(judge, Case::new("table", &[t])) {
            acc.violate(v);
        }
    }
    rep.add_space("every entry of the deck and of the nine published tables", &acc, t0, "as sets against generated combinations: complete, duplicate-free, higher card first / rows increasing and in order");
    rep.sample(sample_json("table", "Two::AKs", &format!("{:?}", Two::AKs.iter().map(|t| show_words(&t.to_arr())).collect::<Vec<_>>())));
    rep.sample(sample_json("table", "Six::FIVE_CARD_PERMUTATIONS", &format!("{:?}", Six::FIVE_CARD_PERMUTATIONS)));
    // Deck::get
    let t0 = Instant::now();
    let kind = monitor::kind_id("deck.get");
    let d = deck();
    let top: u64 = if ctx.tier.thorough() { 1 << 32 } else { 1 << 28 };
    let accs = par_parts(256, |p| {
        let mut acc = Acc::new(1);
        let lo = top / 256 * p as u64;
        monitor::beat(kind, &[lo]);
        for i in lo..lo + top / 256 {
            acc.cases += 1;
            acc.calls += 1;
            let exp = if i < 52 { d[i as usize].word() } else { 0 };
            if i < 64 {
                acc.nontrivial += 1;
            }
            if !matches!(guard(|| Deck::get(i as usize)), Ok(w) if w == exp) {
                match confirm(judge, Case::new("deck.get", &[i])) {
                    Some(v) => acc.violate(v),
                    None => super::unreproduced("C18 deck.get mismatch not reproduced"),
                }
            }
        }
        acc
    });
    let mut acc = Acc::merged(accs);
    for k in 0..64u32 {
        for i in [(1u64 << k).wrapping_sub(1), 1u64 << k, (1u64 << k).wrapping_add(1)] {
            acc.cases += 1;
            acc.calls += 1;
            acc.nontrivial += 1;
            if let Some(v) = confirm(judge, Case::new("deck.get", &[i])) {
                acc.violate(v);
            }
        }
    }
    // indices m * 2^s + j: a quotient / index truncated to 8, 16, 32 ... bits wraps back into range only for these
    for s in [8u32, 16, 24, 32, 40, 48, 56] {
        for m in 1..=255u64 {
            if s == 56 && m > 255 {
                continue;
            }
            for j in 0..64u64 {
                let i = (m << s).wrapping_add(j);
                acc.cases += 1;
                acc.calls += 1;
                let exp = if i < 52 { d[i as usize].word() } else { 0 };
                if !matches!(guard(|| Deck::get(i as usize)), Ok(w) if w == exp) {
                    match confirm(judge, Case::new("deck.get", &[i])) {
                        Some(v) => acc.violate(v),
                        None => super::unreproduced("C18 deck.get mismatch not reproduced"),
                    }
                }
            }
        }
    }
    for i in [u64::MAX, u64::MAX - 1, 51, 52, 53] {
        acc.cases += 1;
        acc.calls += 1;
        if let Some(v) = confirm(judge, Case::new("deck.get", &[i])) {
            acc.violate(v);
        }
    }
    rep.add_space(&format!("Deck::get(i) for every i < 2^{}, every 2^k - 1, 2^k, 2^k + 1 up to usize::MAX, and every m * 2^s + j (m < 256, s = 8,16,..,56, j < 64)", if ctx.tier.thorough() { 32 } else { 28 }), &acc, t0, "in range => the deck card, at or past the end => blank");
    {
        let mut items: Vec<Case> = [0u64, 1, 12, 13, 38, 50, 51, 52, 53, 255, 256, 257, 307, 65536 + 7, 1 << 32, u64::MAX].iter().map(|i| Case::new("deck.get", &[*i])).collect();
        for t in 0..TABLES.len() as u64 {
            items.push(Case::new("table", &[t]));
        }
        super::history2(rep, judge, &items);
    }
    rep.rule = "distinct table entries and distinct indices; non-trivial = every table entry, and the indices around the deck's end and the powers of two".into();
    rep.bound = "tables complete; Deck::get on a complete low range plus all power-of-two neighbourhoods".into();
}
