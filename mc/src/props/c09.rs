//! C09 - more cards never weaken a hand: seven <= every six-subset <= every five-subset.
//!
//! Spaces: all 20,358,520 six-card hands with their six five-card sub-hands; all 133,784,560 seven-card hands
//! with their seven six-card sub-hands (canonical slot order; sub-hands keep the relative order).
//! No oracle: every value is produced by the crate (v7 = min_i v6_i, v6 = min_j v5_ij, hence v7 <= v6_i <= v5_ij);
//! this guards the oracle-based checks against a shared blind spot.
use super::hands::AnyHand;
use super::{confirm, sample_json, Ctx};
use crate::engine::enumerate::{combos_prefix, par_parts};
use crate::engine::evidence::{Acc, Case, Report, Verdict};
use crate::engine::monitor::{self, guard};
use crate::oracle::cards::{deck, show_words};
use std::time::Instant;

fn without(w: &[u32], i: usize) -> Vec<u32> {
    w.iter().enumerate().filter(|(k, _)| *k != i).map(|(_, x)| *x).collect()
}

/// Case kinds: "seven.min_of_sixes" [7 words], "six.min_of_fives" [6 words].
pub fn judge(case: &Case) -> Verdict {
    let w = case.w32s();
    let n = match case.kind.as_str() {
        "seven.min_of_sixes" => 7,
        "six.min_of_fives" => 6,
        _ => return Verdict::NotJudged("unknown kind".into()),
    };
    if w.len() != n || super::c01::distinct_cards(&w).is_none() {
        return Verdict::NotJudged("not distinct real cards of the right count".into());
    }
    match guard(|| {
        let v = AnyHand::from_words(&w).value().unwrap();
        let subs: Vec<u16> = (0..n).map(|i| AnyHand::from_words(&without(&w, i)).value().unwrap()).collect();
        (v, subs)
    }) {
        Err(p) => Verdict::Violated { class: format!("panic:{}", case.kind), expected: "values".into(), observed: format!("panic: {}", p) },
        Ok((v, subs)) => {
            let m = *subs.iter().min().unwrap();
            if v == m {
                Verdict::Holds
            } else {
                Verdict::Violated {
                    class: format!("{}:{}", case.kind, if v > m { "bigger-hand-is-weaker-than-a-sub-hand" } else { "bigger-hand-is-stronger-than-all-sub-hands" }),
                    expected: format!("value of [{}] = smallest value of its {} sub-hands = {}", show_words(&w), n, m),
                    observed: format!("{} (sub-hand values, leaving out slot 1..{}: {:?})", v, n, subs),
                }
            }
        }
    }
}

fn space(ctx: &Ctx, rep: &mut Report, n: usize) {
    let d = deck();
    let kind_name = if n == 7 { "seven.min_of_sixes" } else { "six.min_of_fives" };
    let kind = monitor::kind_id(kind_name);
    let mut parts = Vec::new();
    for a in 0..52usize {
        for b in a + 1..52 {
            if b + (n - 2) < 52 {
                parts.push((a, b));
            }
        }
    }
    let t0 = Instant::now();
    let accs = par_parts(parts.len(), |pi| {
        let (a, b) = parts[pi];
        let mut acc = Acc::new(8);
        let mut w = vec![0u32; n];
        let mut sub = vec![0u32; n - 1];
        combos_prefix(52, n, &[a, b], &mut |idx| {
            for i in 0..n {
                w[i] = d[idx[i]].word();
            }
            let w64: Vec<u64> = w.iter().map(|x| *x as u64).collect();
            monitor::beat(kind, &w64);
            acc.cases += 1;
            acc.calls += 1 + n as u64;
            let r = guard(|| {
                let v = AnyHand::from_words(&w).value().unwrap();
                let mut m = u16::MAX;
                let mut attain = 0;
                for i in 0..n {
                    let mut k = 0;
                    for j in 0..n {
                        if j != i {
                            sub[k] = w[j];
                            k += 1;
                        }
                    }
                    let s = AnyHand::from_words(&sub).value().unwrap();
                    if s < m {
                        m = s;
                        attain = 1;
                    } else if s == m {
                        attain += 1;
                    }
                }
                (v, m, attain)
            });
            match r {
                Ok((v, m, attain)) if v == m => {
                    acc.hist[attain.min(7)] += 1;
                    if attain == n - 5 {
                        acc.nontrivial += 1; // exactly one five-card sub-hand is best: only the forced number of sub-hands attain the minimum
                    }
                }
                _ => match confirm(judge, Case::w32(kind_name, &w)) {
                    Some(v) => acc.violate(v),
                    None => super::unreproduced("C09 mismatch not reproduced"),
                },
            }
            if acc.samples.is_empty() && (pi as u64 + ctx.seed) % 157 == 0 {
                let subs: Vec<u16> = (0..n).map(|i| AnyHand::from_words(&without(&w, i)).value().unwrap()).collect();
                acc.samples.push(sample_json(kind_name, &show_words(&w), &format!("value {:?}; sub-hand values {:?}", AnyHand::from_words(&w).value(), subs)));
            }
        });
        acc
    });
    let acc = Acc::merged(accs);
    for k in 1..=7 {
        if acc.hist[k] > 0 {
            rep.hist_add(&format!("{}:hands_where_{}_sub_hands_attain_the_minimum", kind_name, k), acc.hist[k]);
        }
    }
    rep.guard(&format!("{}: hands with the forced minimum of {} decisive sub-hand(s) and hands with more tied sub-hands both occur", kind_name, n - 5), acc.viol_count > 0 || (acc.hist[n - 5] > 0 && acc.hist[n - 4] > 0 && acc.hist[..n - 5].iter().all(|x| *x == 0)), format!("{:?}", acc.hist));
    rep.add_space(&format!("{}H with all {} sub-hands", n, n), &acc, t0, "canonical slot order; each sub-hand leaves out one slot");
}

fn all_orders_space(rep: &mut Report, n: usize) {
    // every slot order of every n-card hand of two small sub-decks (a shortcut that depends on where cards sit is right
    // in canonical and sorted orders and wrong in a few of the 5,040 arrangements)
    let kind_name = if n == 7 { "seven.min_of_sixes" } else { "six.min_of_fives" };
    let kind = monitor::kind_id(kind_name);
    let orders = crate::engine::enumerate::permutations(n);
    for (name, cards) in super::c02::small_sub_decks() {
        let t0 = Instant::now();
        let hands = crate::engine::enumerate::combos(cards.len(), n);
        let accs = par_parts(hands.len(), |hi| {
            let mut acc = Acc::new(8);
            let base: Vec<u32> = hands[hi].iter().map(|i| cards[*i].word()).collect();
            let mut w = vec![0u32; n];
            for ord in &orders {
                for i in 0..n {
                    w[ord[i]] = base[i];
                }
                let mut w64 = [0u64; 7];
                for i in 0..n {
                    w64[i] = w[i] as u64;
                }
                monitor::beat(kind, &w64[..n]);
                acc.cases += 1;
                acc.calls += 1 + n as u64;
                acc.nontrivial += 1;
                let ok = matches!(guard(|| {
                    let v = AnyHand::from_words(&w).value().unwrap();
                    let mut m = u16::MAX;
                    let mut sub = [0u32; 6];
                    for i in 0..n {
                        let mut k = 0;
                        for j in 0..n {
                            if j != i {
                                sub[k] = w[j];
                                k += 1;
                            }
                        }
                        m = m.min(AnyHand::from_words(&sub[..n - 1]).value().unwrap());
                    }
                    (v, m)
                }), Ok((v, m)) if v == m);
                if !ok {
                    match confirm(judge, Case::w32(kind_name, &w)) {
                        Some(v) => acc.violate(v),
                        None => super::unreproduced("C09 all-orders mismatch not reproduced"),
                    }
                }
            }
            acc
        });
        let acc = Acc::merged(accs);
        rep.add_space(&format!("sub-deck {} : every {}-card hand x all {} slot orders, with all its sub-hands", name, n, orders.len()), &acc, t0, "sub-hands keep the relative slot order");
    }
}

pub fn run(ctx: &Ctx, rep: &mut Report) {
    space(ctx, rep, 6);
    if !ctx.lean {
        space(ctx, rep, 7);
    }
    all_orders_space(rep, 6);
    all_orders_space(rep, 7);
    {
        let d = deck();
        let mut items = Vec::new();
        // hands of a two-suit sub-deck: flushes, straights and pairs made / broken by one card
        let sub: Vec<u32> = d.iter().filter(|c| c.suit() >= 2 && c.rank() >= 6).map(|c| c.word()).collect();
        for k in 0..sub.len() {
            let w7: Vec<u32> = (0..7).map(|i| sub[(k + i * 2) % sub.len()]).collect();
            let w6: Vec<u32> = w7[..6].to_vec();
            if super::c01::distinct_cards(&w7).is_some() {
                items.push(Case::w32("seven.min_of_sixes", &w7));
                items.push(Case::w32("six.min_of_fives", &w6));
            }
        }
        super::history2(rep, judge, &items);
    }
    rep.rule = "distinct six- and seven-card hands; non-trivial = only the forced number of sub-hands (1 of 6, 2 of 7) attains the minimum, i.e. the best five-card hand is unique and every other sub-hand is strictly weaker".into();
    rep.bound = "all six- and seven-card subsets in canonical slot order, plus every slot order of every hand of two 12-card sub-decks; other orders of other hands are outside (slot-order independence of the value itself is C02's)".into();
    rep.assume("v7 <= v6_i and v6 <= v5_j follow from the two minimum equalities checked on every hand");
}
