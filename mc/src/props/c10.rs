//! C10 - card words follow the documented bit layout; exactly 52 words are cards.
//!
//! Spaces: all 14 x 5 rank/suit enumeration pairs through `create` (blank members => blank); the 52 named
//! constants; every deck position; all accessors on the 52 cards and on blank; all 2^32 words through both filters.
//! Oracle: the layout formula of the README (oracle::cards).
use super::consts::named_words;
use super::{confirm, sample_json, Ctx};
use crate::engine::enumerate::par_parts;
use crate::engine::evidence::{Acc, Case, Report, Verdict};
use crate::engine::monitor::{self, guard};
use crate::oracle::cards::{deck, is_card_word, show_word, word_to_card, Card, PRIMES, RANK_CHARS, SUIT_GLYPHS, SUIT_LETTERS};
use ckc_rs::deck::{Deck, POKER_DECK};
use ckc_rs::{CKCNumber, CardNumber, CardRank, CardSuit, PokerCard};
use std::time::Instant;
use strum::IntoEnumIterator;

/// The harness's own numbering of the enumeration members, by variant identity (ACE = 14 .. TWO = 2, BLANK = 0;
/// SPADES = 4 .. CLUBS = 1, BLANK = 0). Deliberately NOT `member as u8`: no property says anything about the
/// discriminants, so renumbering them must not change any verdict.
pub fn rank_no(r: CardRank) -> u8 {
    match r {
        CardRank::ACE => 14,
        CardRank::KING => 13,
        CardRank::QUEEN => 12,
        CardRank::JACK => 11,
        CardRank::TEN => 10,
        CardRank::NINE => 9,
        CardRank::EIGHT => 8,
        CardRank::SEVEN => 7,
        CardRank::SIX => 6,
        CardRank::FIVE => 5,
        CardRank::FOUR => 4,
        CardRank::THREE => 3,
        CardRank::TWO => 2,
        CardRank::BLANK => 0,
    }
}
pub fn suit_no(s: CardSuit) -> u8 {
    match s {
        CardSuit::SPADES => 4,
        CardSuit::HEARTS => 3,
        CardSuit::DIAMONDS => 2,
        CardSuit::CLUBS => 1,
        CardSuit::BLANK => 0,
    }
}
fn rank_idx(r: CardRank) -> Option<u8> {
    let v = rank_no(r);
    if (2..=14).contains(&v) {
        Some(v - 2)
    } else {
        None
    }
}
fn suit_idx(s: CardSuit) -> Option<u8> {
    let v = suit_no(s);
    if (1..=4).contains(&v) {
        Some(v - 1)
    } else {
        None
    }
}

fn accessor_report(w: u32) -> Vec<(&'static str, String)> {
    // through the value and through the reference depths that iterator adaptors hand to closures (`iter()` gives `&u32`,
    // `filter` / `find` / `max_by_key` closures get `&&u32`): method resolution must end at the same accessors
    let r1 = &w;
    let r2 = &r1;
    let r3 = &r2;
    let mut v = accessor_report_via(w, |f| f(&w));
    for (depth, other) in [("&", accessor_report_via(w, |f| f(*r2))), ("&&", accessor_report_via2(r2)), ("&&&", accessor_report_via3(r3))] {
        for (a, b) in v.iter_mut().zip(other.iter()) {
            if a.1 != b.1 {
                a.1 = format!("{} (but {} through a {}u32 receiver)", a.1, b.1, depth);
            }
        }
    }
    v
}
fn accessor_report_via(w: u32, _f: impl Fn(&dyn Fn(&u32) -> char) -> char) -> Vec<(&'static str, String)> {
    vec![
        ("get_card_rank", format!("{:?}", rank_idx(w.get_card_rank()))),
        ("get_card_suit", format!("{:?}", suit_idx(w.get_card_suit()))),
        ("get_rank_bit", format!("{:#x}", w.get_rank_bit())),
        ("get_rank_flag", format!("{:#x}", w.get_rank_flag())),
        ("get_rank_prime", format!("{}", w.get_rank_prime())),
        ("get_suit_bit", format!("{:#x}", w.get_suit_bit())),
        ("get_suit_flag", format!("{:#x}", w.get_suit_flag())),
        ("get_rank_char", format!("{}", w.get_rank_char())),
        ("get_suit_char", format!("{}", w.get_suit_char())),
        ("get_suit_letter", format!("{}", w.get_suit_letter())),
        ("is_blank", format!("{}", w.is_blank())),
        ("as_u32", format!("{:#x}", w.as_u32())),
        ("binary_signature(get_card_suit)", format!("{:#x}", w.get_card_suit().binary_signature())),
        ("filter", format!("{:#x}", CardNumber::filter(w))),
    ]
}
macro_rules! report_through {
    ($w:expr, $plain:expr) => {
        vec![
            ("get_card_rank", format!("{:?}", rank_idx($w.get_card_rank()))),
            ("get_card_suit", format!("{:?}", suit_idx($w.get_card_suit()))),
            ("get_rank_bit", format!("{:#x}", $w.get_rank_bit())),
            ("get_rank_flag", format!("{:#x}", $w.get_rank_flag())),
            ("get_rank_prime", format!("{}", $w.get_rank_prime())),
            ("get_suit_bit", format!("{:#x}", $w.get_suit_bit())),
            ("get_suit_flag", format!("{:#x}", $w.get_suit_flag())),
            ("get_rank_char", format!("{}", $w.get_rank_char())),
            ("get_suit_char", format!("{}", $w.get_suit_char())),
            ("get_suit_letter", format!("{}", $w.get_suit_letter())),
            ("is_blank", format!("{}", $w.is_blank())),
            ("as_u32", format!("{:#x}", $w.as_u32())),
            ("binary_signature(get_card_suit)", format!("{:#x}", $w.get_card_suit().binary_signature())),
            ("filter", format!("{:#x}", CardNumber::filter($plain))),
        ]
    };
}
fn accessor_report_via2(w: &&u32) -> Vec<(&'static str, String)> {
    report_through!(w, **w)
}
fn accessor_report_via3(w: &&&u32) -> Vec<(&'static str, String)> {
    report_through!(w, ***w)
}
fn accessor_model(w: u32) -> Vec<(&'static str, String)> {
    match word_to_card(w) {
        Some(c) => {
            let (r, s) = (c.rank() as u32, c.suit() as u32);
            vec![
                ("get_card_rank", format!("{:?}", Some(c.rank()))),
                ("get_card_suit", format!("{:?}", Some(c.suit()))),
                ("get_rank_bit", format!("{:#x}", 1u32 << r)),
                ("get_rank_flag", format!("{:#x}", 1u32 << (16 + r))),
                ("get_rank_prime", format!("{}", PRIMES[r as usize])),
                ("get_suit_bit", format!("{:#x}", 1u32 << s)),
                ("get_suit_flag", format!("{:#x}", 1u32 << (12 + s))),
                ("get_rank_char", format!("{}", RANK_CHARS[r as usize])),
                ("get_suit_char", format!("{}", SUIT_GLYPHS[s as usize])),
                ("get_suit_letter", format!("{}", SUIT_LETTERS[s as usize])),
                ("is_blank", "false".into()),
                ("as_u32", format!("{:#x}", w)),
                ("binary_signature(get_card_suit)", format!("{:#x}", 1u32 << (12 + s))),
                ("filter", format!("{:#x}", w)),
            ]
        }
        None => Vec::new(),
    }
}

/// Case kinds: "create" [rank discriminant, suit discriminant]; "const" [index into the named constants];
/// "deck" [index]; "accessors" [word: a card or blank]; "filter" [word].
pub fn judge(case: &Case) -> Verdict {
    match case.kind.as_str() {
        "create" => {
            let (rd, sd) = (case.words.first().copied().unwrap_or(99), case.words.get(1).copied().unwrap_or(99));
            let r = CardRank::iter().find(|r| rank_no(*r) as u64 == rd);
            let s = CardSuit::iter().find(|s| suit_no(*s) as u64 == sd);
            let (r, s) = match (r, s) {
                (Some(r), Some(s)) => (r, s),
                _ => return Verdict::NotJudged("no such enumeration member".into()),
            };
            let exp = match (rank_idx(r), suit_idx(s)) {
                (Some(ri), Some(si)) => Card::new(ri, si).word(),
                _ => 0,
            };
            match guard(|| CKCNumber::create(r, s)) {
                Err(p) => Verdict::Violated { class: "panic:create".into(), expected: format!("{:#x}", exp), observed: format!("panic: {}", p) },
                Ok(w) if w != exp => Verdict::Violated { class: format!("create:{}", if exp == 0 { "blank-member-gives-a-word" } else { "wrong-word" }), expected: format!("create({:?}, {:?}) = {:#x} ({})", r, s, exp, show_word(exp)), observed: format!("{:#x} ({})", w, show_word(w)) },
                Ok(_) => Verdict::Holds,
            }
        }
        "const" => {
            let t = named_words();
            let i = case.words.first().copied().unwrap_or(99) as usize;
            if i >= t.len() {
                return Verdict::NotJudged("no such constant".into());
            }
            let (name, w, r, s) = t[i];
            let exp = Card::new(r, s).word();
            if w == exp {
                Verdict::Holds
            } else {
                Verdict::Violated { class: "const:wrong-word".into(), expected: format!("CardNumber::{} = {:#x}", name, exp), observed: format!("{:#x}", w) }
            }
        }
        "deck" => {
            let i = case.words.first().copied().unwrap_or(99) as usize;
            if i >= 52 {
                return Verdict::NotJudged("deck positions 0..52".into());
            }
            let exp = deck()[i].word();
            match guard(|| (POKER_DECK.arr()[i], Deck::get(i))) {
                Err(p) => Verdict::Violated { class: "panic:deck".into(), expected: show_word(exp), observed: format!("panic: {}", p) },
                Ok((a, b)) if a != exp || b != exp => Verdict::Violated { class: "deck:wrong-card-at-position".into(), expected: format!("deck[{}] = {}", i, show_word(exp)), observed: format!("arr {} get {}", show_word(a), show_word(b)) },
                Ok(_) => Verdict::Holds,
            }
        }
        "accessors" => {
            let w = case.words.first().copied().unwrap_or(1) as u32;
            if w == 0 {
                // blank: the statement only says that it is blank and that the filter maps it to blank
                return match guard(|| (0u32.is_blank(), CardNumber::filter(0))) {
                    Ok((true, 0)) => Verdict::Holds,
                    other => Verdict::Violated { class: "accessor:blank".into(), expected: "is_blank() and filter(0) == 0".into(), observed: format!("{:?}", other) },
                };
            }
            if !is_card_word(w) {
                return Verdict::NotJudged("accessors are specified on the 52 cards".into());
            }
            let exp = accessor_model(w);
            match guard(|| accessor_report(w)) {
                Err(p) => Verdict::Violated { class: "panic:accessors".into(), expected: "field values".into(), observed: format!("panic: {}", p) },
                Ok(got) => {
                    for (g, e) in got.iter().zip(exp.iter()) {
                        if g.1 != e.1 {
                            return Verdict::Violated { class: format!("accessor:{}", g.0), expected: format!("{} of {} = {}", e.0, show_word(w), e.1), observed: g.1.clone() };
                        }
                    }
                    Verdict::Holds
                }
            }
        }
        "filter" => super::c04::judge(case),
        _ => Verdict::NotJudged("unknown kind".into()),
    }
}


/// filter call histories: a card c, then a word w - a one-entry memo of the last accepted word, keyed by a folded
/// digest, answers every word alone correctly. quick: w = c ^ x for x in {d, d << 16, d << 16 | d : d < 2^16} (the
/// collisions of the usual xor / add folds); thorough: w over ALL 2^32 words after every card. Single-threaded;
/// `shard` = Some((k, n)) restricts to the cards with deck index = k mod n (one process per shard).
fn filter_histories(_ctx: &Ctx, rep: &mut Report, shard: Option<(usize, usize)>) {
    {
        let t0 = Instant::now();
        let kind = monitor::kind_id("filter-history");
        let thorough = _ctx.tier.thorough();
        let cards = deck();
        let accs = par_parts(1, |_| {
            let mut acc = Acc::new(1);
            for (ci, c) in cards.iter().enumerate() {
                if let Some((k, n)) = shard {
                    if ci % n != k {
                        continue;
                    }
                }
                let cw = c.word();
                monitor::beat(kind, &[cw as u64]);
                let mut step = |w: u32, acc: &mut Acc| {
                    acc.cases += 1;
                    acc.calls += 2;
                    let e = if is_card_word(w) { w } else { 0 };
                    let ok = matches!(guard(|| (CardNumber::filter(cw), CardNumber::filter(w))), Ok((a, b)) if a == cw && b == e);
                    if !ok {
                        let sc = super::seq_case(&Case::w32("filter", &[cw]), &Case::w32("filter", &[w]));
                        match super::judge_seq(judge, &sc) {
                            Verdict::Violated { class, expected, observed } => acc.violate(crate::engine::evidence::Violation { class, case: sc, expected, observed, profile: crate::engine::evidence::profile_name().into(), trace: vec![] }),
                            _ => super::unreproduced(&format!("C10 filter history {:#x} then {:#x} not reproduced", cw, w)),
                        }
                    }
                };
                if thorough {
                    for x in 0..=u32::MAX {
                        if x & 0xFF_FFFF == 0 {
                            monitor::tick();
                        }
                        step(x, &mut acc);
                    }
                } else {
                    for d in 1..=0xFFFFu32 {
                        step(cw ^ d, &mut acc);
                        step(cw ^ (d << 16), &mut acc);
                        step(cw ^ (d << 16 | d), &mut acc);
                    }
                }
            }
            acc.nontrivial = acc.cases;
            acc
        });
        let acc = Acc::merged(accs);
        rep.add_space(if thorough { "filter histories: every card, then EVERY 32-bit word (single-threaded)" } else { "filter histories: every card c, then c ^ x for x in {d, d<<16, d<<16|d : d < 2^16} (single-threaded)" }, &acc, t0, "the second answer must not depend on the first call");
    }
}

pub fn run(_ctx: &Ctx, rep: &mut Report) {
    if let Some(sh) = _ctx.shard {
        filter_histories(_ctx, rep, Some(sh));
        return;
    }
    #[allow(unused_variables)]
    let ctx = _ctx;
    // create
    {
        let t0 = Instant::now();
        let mut acc = Acc::new(1);
        for r in CardRank::iter() {
            for s in CardSuit::iter() {
                acc.cases += 1;
                acc.calls += 1;
                if rank_idx(r).is_some() && suit_idx(s).is_some() {
                    acc.nontrivial += 1;
                }
                if let Some(v) = confirm(judge, Case::new("create", &[r as u64, s as u64])) {
                    acc.violate(v);
                }
            }
        }
        rep.guard("14 rank members x 5 suit members", acc.cases == 70 && acc.nontrivial == 52, format!("{} pairs, {} real", acc.cases, acc.nontrivial));
        rep.sample(sample_json("create", "(ACE, SPADES)", &format!("{:#x}", CKCNumber::create(CardRank::ACE, CardSuit::SPADES))));
        rep.sample(sample_json("create", "(BLANK, SPADES)", &format!("{:#x}", CKCNumber::create(CardRank::BLANK, CardSuit::SPADES))));
        rep.add_space("create: all 14 x 5 enumeration pairs", &acc, t0, "");
    }
    // constants, deck, accessors
    {
        let t0 = Instant::now();
        let mut acc = Acc::new(1);
        for i in 0..52u64 {
            for k in ["const", "deck"] {
                acc.cases += 1;
                acc.calls += 1;
                acc.nontrivial += 1;
                if let Some(v) = confirm(judge, Case::new(k, &[i])) {
                    acc.violate(v);
                }
            }
        }
        let names: std::collections::BTreeSet<u32> = named_words().iter().map(|x| x.1).collect();
        rep.guard("52 distinct named constants", names.len() == 52, format!("{}", names.len()));
        for i in 0..53 {
            let w = crate::oracle::cards::sigma53(i);
            acc.cases += 1;
            acc.calls += 14;
            acc.nontrivial += 1;
            if let Some(v) = confirm(judge, Case::w32("accessors", &[w])) {
                acc.violate(v);
            }
        }
        rep.sample(sample_json("accessors", "Q♦", &format!("{:?}", accessor_report(Card::new(10, 1).word()))));
        rep.add_space("52 named constants, 52 deck positions, 14 accessors on 52 cards + blank", &acc, t0, "");
    }
    // filters, all 2^32 words
    {
        let t0 = Instant::now();
        let kind = monitor::kind_id("filter");
        let accs = par_parts(256, |p| {
            let mut acc = Acc::new(1);
            let lo = (p as u64) << 24;
            monitor::beat(kind, &[lo]);
            let mut cards = 0u64;
            let mut nbad = 0u64;
            let r = guard(|| {
                for x in lo..lo + (1 << 24) {
                    let w = x as u32;
                    let is = is_card_word(w);
                    cards += is as u64;
                    let e = if is { w } else { 0 };
                    if CardNumber::filter(w) != e || <u32 as PokerCard>::filter(w) != e {
                        nbad += 1;
                    }
                }
            });
            acc.cases += 1 << 24;
            acc.calls += 2 << 24;
            acc.nontrivial += cards;
            if r.is_err() || nbad > 0 {
                let mut stored = 0;
                for x in lo..lo + (1 << 24) {
                    if stored < 8 {
                        if let Some(v) = confirm(judge, Case::w32("filter", &[x as u32])) {
                            acc.violate(v);
                            stored += 1;
                        }
                    }
                }
                if stored == 0 {
                    super::unreproduced("C10 filter mismatch not reproduced");
                }
                acc.viol_count = acc.viol_count.max(nbad);
            }
            acc
        });
        let acc = Acc::merged(accs);
        rep.guard("filter sweep met exactly 52 card words", acc.nontrivial == 52, format!("{}", acc.nontrivial));
        rep.add_space("2^32 words: CardNumber::filter and PokerCard::filter", &acc, t0, "passes exactly the 52 layout words, everything else to blank");
    }
    {
        let mut items = Vec::new();
        for r in CardRank::iter() {
            for s in CardSuit::iter() {
                items.push(Case::new("create", &[rank_no(r) as u64, suit_no(s) as u64]));
            }
        }
        for i in (0..53).step_by(3) {
            items.push(Case::w32("accessors", &[crate::oracle::cards::sigma53(i)]));
        }
        let a = Card::new(12, 3).word();
        for w in [a, a ^ 1, a | (1 << 29), 0, 23, u32::MAX, Card::new(0, 0).word()] {
            items.push(Case::w32("filter", &[w]));
        }
        super::history2(rep, judge, &items);
    }
    if _ctx.tier.thorough() {
        // every card, then EVERY 32-bit word: sharded over single-threaded processes (one memo per process)
        super::spawn_shards(_ctx, rep, 13);
    } else {
        filter_histories(_ctx, rep, None);
    }
    rep.rule = "distinct enumeration pairs, constants, deck positions, (word, accessor set) and 32-bit words; non-trivial = the 52 real cards / words in each family".into();
    rep.bound = "none: every family is enumerated completely".into();
    rep.assume("the enum discriminants (ACE = 14 .. TWO = 2, SPADES = 4 .. CLUBS = 1, BLANK = 0) identify rank and suit members");
}
