//! C12 - text parsing is total; a token is a card iff it starts with rank + suit symbols.
//!
//! Spaces
//!   symbol tables: every Unicode scalar value (1,112,064) through CardRank::from_char and CardSuit::from_char
//!   card tokens:   every scalar as FIRST char x each of the 16 suit symbols, every scalar as SECOND char x each of
//!                  the 19 rank symbols (39 M strings) through CKCNumber::from_index and parse::get_rank_and_suit;
//!                  all strings of length <= 4 over a 48-char alphabet (all 35 symbols, separators, NUL, multi-byte
//!                  chars); every two-char head over that alphabet x 6 tails (thorough: heads over a ~2,000-char
//!                  alphabet)
//!   hand parsers:  all token sequences of length 0..=7 over 7 tokens (cards in four spellings, "XX", the one-char
//!                  "A", a card with a tail) x 5 separator styles (single, double, tab, newline, U+3000; odd styles
//!                  also lead and trail) through TryFrom<&str> of Two..Seven, parse::five_from_index and
//!                  BinaryCard::from_index
//!   round trip:    52 cards x 2 renderings
//! Oracle: two-char parser through two literal symbol sets; hand-rolled whitespace tokenizer (oracle::misc).
//! Fewer tokens than slots => Err(any) / None; exactly as many => slot k = token k; more: not judged.
use super::{confirm, sample_json, Ctx};
use crate::engine::enumerate::{par_parts, tuple_decode};
use crate::engine::evidence::{Acc, Case, Report, Verdict};
use crate::engine::monitor::{self, guard};
use crate::oracle::cards::{deck, show_word, show_words, word_to_card, Card};
use crate::oracle::misc::{parse_token, rank_of_symbol, suit_of_symbol, tokens, RANK_SYMBOLS, SUIT_SYMBOLS};
use ckc_rs::cards::binary_card::{BinaryCard, BC64};
use ckc_rs::cards::five::Five;
use ckc_rs::cards::four::Four;
use ckc_rs::cards::seven::Seven;
use ckc_rs::cards::six::Six;
use ckc_rs::cards::three::Three;
use ckc_rs::cards::two::Two;
use ckc_rs::{CKCNumber, CardRank, CardSuit, HandError, PokerCard};
use std::time::Instant;

/// `TryFrom<&'static str>` demands a 'static string although the parsers only read it and return owned arrays;
/// the harness extends the lifetime for the duration of the call instead of leaking millions of strings.
fn as_static(s: &str) -> &'static str {
    unsafe { std::mem::transmute::<&str, &'static str>(s) }
}

fn rank_disc(c: char) -> u8 {
    rank_of_symbol(c).map(|r| r + 2).unwrap_or(0)
}
fn suit_disc(c: char) -> u8 {
    suit_of_symbol(c).map(|s| s + 1).unwrap_or(0)
}

/// What a hand parser did. The statement only says that parsing FAILS on too few tokens, not with which error, so every
/// `Err` is the same outcome here (the variant is kept for the message only).
#[derive(Debug)]
enum HandOut {
    Ok(Vec<u32>),
    Failed(String),
}
impl PartialEq for HandOut {
    fn eq(&self, o: &HandOut) -> bool {
        match (self, o) {
            (HandOut::Ok(a), HandOut::Ok(b)) => a == b,
            (HandOut::Failed(_), HandOut::Failed(_)) => true,
            _ => false,
        }
    }
}
/// do the (rank, suit) enumeration members returned for a token agree with the card the token denotes?
fn members_ok(exp_word: u32, r: u8, su: u8) -> bool {
    match word_to_card(exp_word) {
        Some(c) => r == c.rank() + 2 && su == c.suit() + 1,
        None => r == 0 || su == 0,
    }
}

fn try_size(n: usize, st: &'static str) -> HandOut {
    fn conv<T>(r: Result<T, HandError>, f: impl Fn(T) -> Vec<u32>) -> HandOut {
        match r {
            Ok(h) => HandOut::Ok(f(h)),
            Err(e) => HandOut::Failed(
                match e {
                    HandError::InvalidIndex => "InvalidIndex",
                    HandError::NotEnoughCards => "NotEnoughCards",
                    HandError::TooManyCards => "TooManyCards",
                    _ => "another error",
                }
                .to_string(),
            ),
        }
    }
    match n {
        2 => conv(Two::try_from(st), |h| h.to_arr().to_vec()),
        3 => conv(Three::try_from(st), |h| h.to_arr().to_vec()),
        4 => conv(Four::try_from(st), |h| h.to_arr().to_vec()),
        5 => conv(Five::try_from(st), |h| h.to_arr().to_vec()),
        6 => conv(Six::try_from(st), |h| h.to_arr().to_vec()),
        _ => conv(Seven::try_from(st), |h| h.to_arr().to_vec()),
    }
}

/// Case kinds: "rank_char" [scalar]; "suit_char" [scalar]; "token" (text); "hand" (text); "roundtrip" [card word].
pub fn judge(case: &Case) -> Verdict {
    match case.kind.as_str() {
        "rank_char" | "suit_char" => {
            let ch = match case.words.first().and_then(|u| char::from_u32(*u as u32)) {
                Some(c) => c,
                None => return Verdict::NotJudged("not a scalar value".into()),
            };
            let (exp, got) = if case.kind == "rank_char" { (rank_disc(ch), guard(|| super::c10::rank_no(CardRank::from_char(ch)))) } else { (suit_disc(ch), guard(|| super::c10::suit_no(CardSuit::from_char(ch)))) };
            match got {
                Err(p) => Verdict::Violated { class: format!("panic:{}", case.kind), expected: format!("{}", exp), observed: format!("panic: {}", p) },
                Ok(g) if g != exp => Verdict::Violated { class: format!("{}:{}", case.kind, if exp == 0 { "accepts-a-non-symbol" } else { "rejects-or-misreads-a-symbol" }), expected: format!("member {} for {:?} (U+{:04X})", exp, ch, ch as u32), observed: format!("member {}", g) },
                Ok(_) => Verdict::Holds,
            }
        }
        "token" => {
            let s = match &case.text {
                Some(s) => s.clone(),
                None => return Verdict::NotJudged("no text".into()),
            };
            let exp = parse_token(&s);
            match guard(|| {
                let w = CKCNumber::from_index(&s);
                let (r, su) = ckc_rs::parse::get_rank_and_suit(&s);
                (w, super::c10::rank_no(r), super::c10::suit_no(su))
            }) {
                Err(p) => Verdict::Violated { class: "panic:token".into(), expected: show_word(exp), observed: format!("panic: {}", p) },
                Ok((w, r, su)) => {
                    if w != exp {
                        return Verdict::Violated { class: format!("token:{}", if exp == 0 { "non-card-token-gives-a-card" } else if w == 0 { "card-token-gives-blank" } else { "wrong-card" }), expected: format!("{} for token {:?}", show_word(exp), s), observed: show_word(w) };
                    }
                    // get_rank_and_suit is judged only as far as the statement determines it: it names a real rank AND a
                    // real suit exactly when the token is a card, and then exactly that card's rank and suit
                    if !members_ok(exp, r, su) {
                        return Verdict::Violated { class: "get_rank_and_suit:members-do-not-match-the-card".into(), expected: format!("{} for {:?}", match word_to_card(exp) { Some(c) => format!("(rank member {}, suit member {})", c.rank() + 2, c.suit() + 1), None => "a blank rank or a blank suit".to_string() }, s), observed: format!("({}, {})", r, su) };
                    }
                    Verdict::Holds
                }
            }
        }
        "hand" => {
            let s = match &case.text {
                Some(s) => s.clone(),
                None => return Verdict::NotJudged("no text".into()),
            };
            let toks = tokens(&s);
            let ws: Vec<u32> = toks.iter().map(|t| parse_token(t)).collect();
            let l = toks.len();
            let st = as_static(&s);
            for n in 2..=7usize {
                if l > n {
                    continue; // statement is silent about extra tokens
                }
                let exp = if l < n { HandOut::Failed("any error".into()) } else { HandOut::Ok(ws.clone()) };
                match guard(|| try_size(n, st)) {
                    Err(p) => return Verdict::Violated { class: format!("panic:hand:{}-slot", n), expected: format!("{:?}", exp), observed: format!("panic: {}", p) },
                    Ok(got) if got != exp => {
                        return Verdict::Violated {
                            class: format!("hand:{}-slot:{}", n, if l < n { "too-few-tokens-not-rejected" } else { "slots-not-filled-in-token-order" }),
                            expected: format!("{} for {:?} ({} tokens)", match &exp { HandOut::Ok(v) => format!("Ok([{}])", show_words(v)), x => format!("{:?}", x) }, s, l),
                            observed: match &got { HandOut::Ok(v) => format!("Ok([{}])", show_words(v)), x => format!("{:?}", x) },
                        }
                    }
                    Ok(_) => {}
                }
            }
            if l <= 5 {
                let exp = if l < 5 { None } else { Some(ws.clone()) };
                match guard(|| ckc_rs::parse::five_from_index(&s).map(|a| a.to_vec())) {
                    Err(p) => return Verdict::Violated { class: "panic:five_from_index".into(), expected: format!("{:?}", exp), observed: format!("panic: {}", p) },
                    Ok(got) if got != exp => return Verdict::Violated { class: "five_from_index:wrong".into(), expected: format!("{:?} for {:?}", exp, s), observed: format!("{:?}", got) },
                    Ok(_) => {}
                }
            }
            let mut eb = 0u64;
            for w in &ws {
                if let Some(c) = word_to_card(*w) {
                    eb |= c.bit();
                }
            }
            // parsing text into a bit-set must be total (this property); WHICH set it yields is C15's clause ("a set built
            // ... from text contains exactly the distinct real cards among its tokens") and is judged there, not here
            match guard(|| BinaryCard::from_index(&s)) {
                Err(p) => Verdict::Violated { class: "panic:BinaryCard::from_index".into(), expected: format!("{:#x}", eb), observed: format!("panic: {}", p) },
                Ok(_) => Verdict::Holds,
            }
        }
        "roundtrip" => {
            let w = case.words.first().copied().unwrap_or(0) as u32;
            if word_to_card(w).is_none() {
                return Verdict::NotJudged("a real card".into());
            }
            match guard(|| {
                let a = format!("{}{}", w.get_rank_char(), w.get_suit_char());
                let b = format!("{}{}", w.get_rank_char(), w.get_suit_letter());
                (CKCNumber::from_index(&a), CKCNumber::from_index(&b), a, b)
            }) {
                Err(p) => Verdict::Violated { class: "panic:roundtrip".into(), expected: show_word(w), observed: format!("panic: {}", p) },
                Ok((x, y, a, b)) if x != w || y != w => Verdict::Violated { class: "roundtrip:render-then-parse".into(), expected: format!("{} from {:?} and {:?}", show_word(w), a, b), observed: format!("{} and {}", show_word(x), show_word(y)) },
                Ok(_) => Verdict::Holds,
            }
        }
        _ => Verdict::NotJudged("unknown kind".into()),
    }
}

#[inline]
fn check_token(acc: &mut Acc, s: &str) {
    acc.cases += 1;
    acc.calls += 2;
    let exp = parse_token(s);
    if exp != 0 {
        acc.nontrivial += 1;
        acc.hist[0] += 1;
    }
    let ok = matches!(guard(|| {
        let (r, su) = ckc_rs::parse::get_rank_and_suit(s);
        (CKCNumber::from_index(s), super::c10::rank_no(r), super::c10::suit_no(su))
    }), Ok((w, r, su)) if w == exp && members_ok(exp, r, su));
    if !ok {
        match confirm(judge, Case::text("token", s, &[])) {
            Some(v) => acc.violate(v),
            None => super::unreproduced(&format!("C12 token mismatch on {:?} not reproduced", s)),
        }
    }
}

/// k filler tokens followed by one card token that did not occur before
pub fn long_texts() -> Vec<String> {
    let d = deck();
    let mut ks: Vec<usize> = (0..=300).collect();
    for m in 9..=16u32 {
        for dlt in [-1i64, 0, 1] {
            ks.push(((1i64 << m) + dlt) as usize);
        }
    }
    let mut out = Vec::new();
    for k in ks {
        for style in 0..3 {
            let mut s = String::new();
            for i in 0..k {
                match style {
                    0 => s.push_str("XX"),
                    1 => s.push_str("AS"),
                    _ => {
                        // the deck except its last card, cycling
                        let c = d[i % 51];
                        s.push(crate::oracle::cards::RANK_CHARS[c.rank() as usize]);
                        s.push(crate::oracle::cards::SUIT_LETTERS[c.suit() as usize]);
                    }
                }
                s.push(' ');
            }
            s.push_str("2C");
            out.push(s);
        }
    }
    out
}

fn alphabet48() -> Vec<char> {
    let mut v: Vec<char> = RANK_SYMBOLS.chars().chain(SUIT_SYMBOLS.chars()).collect();
    v.extend([' ', '\t', '\u{0}', '\u{3000}', '_', 'x', 'X', 'é', 'Ж', '中', '😀', '1', '-']);
    v
}

pub fn run(ctx: &Ctx, rep: &mut Report) {
    let thorough = ctx.tier.thorough();
    // (a) symbol tables over every scalar value
    {
        let t0 = Instant::now();
        let kind = monitor::kind_id("rank_char");
        let accs = par_parts(0x110, |p| {
            let mut acc = Acc::new(2);
            monitor::beat(kind, &[(p as u64) << 12]);
            for u in (p as u32) << 12..(p as u32 + 1) << 12 {
                if let Some(ch) = char::from_u32(u) {
                    acc.cases += 1;
                    acc.calls += 2;
                    let (er, es) = (rank_disc(ch), suit_disc(ch));
                    if er != 0 || es != 0 {
                        acc.nontrivial += 1;
                    }
                    if !matches!(guard(|| (super::c10::rank_no(CardRank::from_char(ch)), super::c10::suit_no(CardSuit::from_char(ch)))), Ok((r, s)) if r == er && s == es) {
                        let mut found = false;
                        for k in ["rank_char", "suit_char"] {
                            if let Some(v) = confirm(judge, Case::new(k, &[u as u64])) {
                                found = true;
                                acc.violate(v);
                            }
                        }
                        if !found {
                            super::unreproduced("C12 symbol mismatch not reproduced");
                        }
                    }
                }
            }
            acc
        });
        let acc = Acc::merged(accs);
        rep.guard("1,112,064 scalar values, 35 of them symbols", acc.cases == 1_112_064 && acc.nontrivial == 35, format!("{} scalars, {} symbols", acc.cases, acc.nontrivial));
        rep.add_space("every Unicode scalar value through both symbol tables", &acc, t0, "");
    }
    // (b) one free char x all symbols of the other table
    {
        let t0 = Instant::now();
        let kind = monitor::kind_id("token");
        let suits: Vec<char> = SUIT_SYMBOLS.chars().collect();
        let ranks: Vec<char> = RANK_SYMBOLS.chars().collect();
        let accs = par_parts(0x110, |p| {
            let mut acc = Acc::new(2);
            let mut buf = String::with_capacity(16);
            monitor::beat(kind, &[(p as u64) << 12]);
            for u in (p as u32) << 12..(p as u32 + 1) << 12 {
                if let Some(ch) = char::from_u32(u) {
                    for s in &suits {
                        buf.clear();
                        buf.push(ch);
                        buf.push(*s);
                        check_token(&mut acc, &buf);
                    }
                    for r in &ranks {
                        buf.clear();
                        buf.push(*r);
                        buf.push(ch);
                        check_token(&mut acc, &buf);
                    }
                }
            }
            acc
        });
        let acc = Acc::merged(accs);
        rep.guard("free-char sweep: 19 x 16 card heads met from both sides", acc.hist[0] == 2 * 19 * 16, format!("{}", acc.hist[0]));
        rep.add_space("every scalar as first char x 16 suit symbols, as second char x 19 rank symbols", &acc, t0, "through CKCNumber::from_index and parse::get_rank_and_suit");
    }
    // (c) short strings and heads x tails over the 48-char alphabet
    {
        let t0 = Instant::now();
        let al = alphabet48();
        let maxlen = 4;
        let kind = monitor::kind_id("token");
        let mut acc = Acc::new(2);
        check_token(&mut acc, "");
        for len in 1..=maxlen {
            let total = (al.len() as u64).pow(len as u32);
            let accs = par_parts(48, |p| {
                let mut a = Acc::new(2);
                let mut idx = vec![0usize; len];
                let mut s = String::new();
                monitor::beat(kind, &[len as u64, p as u64]);
                for t in (total * p as u64 / 48)..(total * (p as u64 + 1) / 48) {
                    tuple_decode(t, al.len() as u64, &mut idx);
                    s.clear();
                    for i in (0..len).rev() {
                        s.push(al[idx[i]]);
                    }
                    check_token(&mut a, &s);
                }
                a
            });
            acc.merge(Acc::merged(accs));
        }
        let tails = ["", "x", " ", "♠", "AS", "♠♠♠♠♠♠♠♠♠♠ long tail 😀 \u{0} end"];
        let heads: Vec<char> = if thorough {
            let mut h = al.clone();
            for u in (0x20u32..0x250).chain(0x370..0x400).chain(0x400..0x460).chain(0x2500..0x2580).chain(0x2660..0x2668).chain(0xFF10..0xFF5B).chain(0x1F0A0..0x1F0F6) {
                if let Some(c) = char::from_u32(u) {
                    if !h.contains(&c) {
                        h.push(c);
                    }
                }
            }
            h
        } else {
            al.clone()
        };
        let accs = par_parts(heads.len(), |i| {
            let mut a = Acc::new(2);
            let mut s = String::new();
            for b in &heads {
                for t in tails {
                    s.clear();
                    s.push(heads[i]);
                    s.push(*b);
                    s.push_str(t);
                    check_token(&mut a, &s);
                }
            }
            monitor::tick();
            a
        });
        acc.merge(Acc::merged(accs));
        rep.add_space(&format!("all strings of length <= {} over 48 chars; all two-char heads over {} chars x 6 tails", maxlen, heads.len()), &acc, t0, "empty, one-char, multi-byte, NUL, separators inside tokens");
    }
    // (d) hand parsers
    {
        let t0 = Instant::now();
        let toks = ["AS", "kh", "T♦", "0c", "XX", "A", "2♣zz"];
        let seps = [" ", "  ", "\t", "\n", "\u{3000}"];
        let kind = monitor::kind_id("hand");
        let maxl = 7usize;
        let mut acc = Acc::new(10);
        for len in 0..=maxl {
            let total = (toks.len() as u64).pow(len as u32);
            let nparts = 49.min(total as usize).max(1);
            let accs = par_parts(nparts, |p| {
                let mut a = Acc::new(10);
                let mut idx = vec![0usize; len];
                let mut s = String::new();
                monitor::beat(kind, &[len as u64, p as u64]);
                for t in (total * p as u64 / nparts as u64)..(total * (p as u64 + 1) / nparts as u64) {
                    tuple_decode(t, toks.len() as u64, &mut idx);
                    for (si, sep) in seps.iter().enumerate() {
                        s.clear();
                        if si % 2 == 1 {
                            s.push_str(sep);
                        }
                        for (k, i) in idx.iter().enumerate() {
                            if k > 0 {
                                s.push_str(sep);
                            }
                            s.push_str(toks[*i]);
                        }
                        if si % 2 == 1 {
                            s.push_str(sep);
                        }
                        a.cases += 1;
                        a.calls += 8;
                        a.hist[len] += 1;
                        a.nontrivial += 1;
                        // fast path = the judge itself (strings are cheap); confirm on violation
                        if let Verdict::Violated { .. } = judge(&Case::text("hand", &s, &[])) {
                            match confirm(judge, Case::text("hand", &s, &[])) {
                                Some(v) => a.violate(v),
                                None => super::unreproduced("C12 hand verdict not reproduced"),
                            }
                        }
                    }
                }
                a
            });
            acc.merge(Acc::merged(accs));
        }
        for l in 0..=maxl {
            rep.hist_add(&format!("hand_strings_with_{}_tokens", l), acc.hist[l]);
        }
        rep.add_space("hand parsers: all token sequences of length 0..=7 over 7 tokens x 5 separator styles", &acc, t0, "TryFrom<&str> of Two..Seven, parse::five_from_index, BinaryCard::from_index");
        rep.sample(sample_json("hand", "\u{3000}AS\u{3000}kh\u{3000}", &format!("{:?}", Two::try_from("\u{3000}AS\u{3000}kh\u{3000}"))));
        rep.sample(sample_json("hand", "AS kh T♦ 0c", &format!("{:?}", Five::try_from("AS kh T♦ 0c"))));
    }
    // (d2) gap-width family: n two-byte card tokens with every combination of gap widths (a parser that reads at fixed
    //      byte offsets, or that treats a wide gap as an empty token, is wrong only for particular layouts)
    {
        let t0 = Instant::now();
        let cards = ["AS", "KD", "QH", "JC", "TS", "9D", "8H"];
        let kind = monitor::kind_id("hand");
        let mut jobs: Vec<(usize, char)> = Vec::new();
        for n in 1..=7usize {
            for ch in [' ', '\t'] {
                jobs.push((n, ch));
            }
        }
        let accs = par_parts(jobs.len(), |j| {
            let (n, ch) = jobs[j];
            let mut a = Acc::new(2);
            // gap 0 = leading (0..=4), gaps 1..n-1 = inner (1..=4), gap n = trailing (0..=4)
            let total = 5u64 * 4u64.pow(n as u32 - 1) * 5;
            let mut s = String::new();
            monitor::beat(kind, &[n as u64, total]);
            for t in 0..total {
                let mut x = t;
                let lead = (x % 5) as usize;
                x /= 5;
                let trail = (x % 5) as usize;
                x /= 5;
                s.clear();
                for _ in 0..lead {
                    s.push(ch);
                }
                for (k, c) in cards.iter().take(n).enumerate() {
                    if k > 0 {
                        let wdt = 1 + (x % 4) as usize;
                        x /= 4;
                        for _ in 0..wdt {
                            s.push(ch);
                        }
                    }
                    s.push_str(c);
                }
                for _ in 0..trail {
                    s.push(ch);
                }
                a.cases += 1;
                a.calls += 8;
                a.nontrivial += 1;
                if let Verdict::Violated { .. } = judge(&Case::text("hand", &s, &[])) {
                    match confirm(judge, Case::text("hand", &s, &[])) {
                        Some(v) => a.violate(v),
                        None => super::unreproduced("C12 gap-family verdict not reproduced"),
                    }
                }
            }
            a
        });
        let acc = Acc::merged(accs);
        rep.add_space("hand parsers: 1..=7 card tokens x every combination of gap widths (lead/trail 0..=4, inner 1..=4) x {space, tab}", &acc, t0, "every byte layout of the separators up to width 4");
    }
    // (d2b) every Unicode scalar value as THE separator between card tokens (two tokens for every scalar; 2..=7 tokens for
    //       every whitespace scalar and a few look-alikes that are not whitespace)
    {
        let t0 = Instant::now();
        let kind = monitor::kind_id("hand");
        let cards = ["AS", "KD", "QH", "JC", "TS", "9D", "8H"];
        let accs = par_parts(0x110, |p| {
            let mut a = Acc::new(2);
            let mut s = String::new();
            monitor::beat(kind, &[(p as u64) << 12]);
            for u in (p as u32) << 12..(p as u32 + 1) << 12 {
                if let Some(ch) = char::from_u32(u) {
                    let special = ch.is_whitespace() || matches!(u, 0x1c..=0x1f | 0x180e | 0x200b..=0x200d | 0x2060 | 0xfeff);
                    let top = if special { 7 } else { 2 };
                    for n in 2..=top {
                        s.clear();
                        for (k, c) in cards.iter().take(n).enumerate() {
                            if k > 0 {
                                s.push(ch);
                            }
                            s.push_str(c);
                        }
                        a.cases += 1;
                        a.calls += 8;
                        if ch.is_whitespace() {
                            a.nontrivial += 1;
                        }
                        if let Verdict::Violated { .. } = judge(&Case::text("hand", &s, &[])) {
                            match confirm(judge, Case::text("hand", &s, &[])) {
                                Some(v) => a.violate(v),
                                None => super::unreproduced("C12 separator-scalar verdict not reproduced"),
                            }
                        }
                    }
                }
            }
            a
        });
        let acc = Acc::merged(accs);
        rep.guard("separator sweep met the 25 Unicode whitespace scalars", acc.nontrivial == 25 * 6, format!("{}", acc.nontrivial));
        rep.add_space("hand parsers: every Unicode scalar value as the separator between two card tokens; 2..=7 tokens for every whitespace scalar and look-alike", &acc, t0, "whitespace per char::is_whitespace separates, everything else glues");
    }
    // (d3) long texts: k filler tokens followed by one card, k up to 300 and around powers of two up to 65,536
    {
        let t0 = Instant::now();
        let mut acc = Acc::new(2);
        for s in long_texts() {
            acc.cases += 1;
            acc.calls += 8;
            acc.nontrivial += 1;
            if let Verdict::Violated { .. } = judge(&Case::text("hand", &s, &[])) {
                match confirm(judge, Case::text("hand", &s, &[])) {
                    Some(v) => acc.violate(v),
                    None => super::unreproduced("C12 long-text verdict not reproduced"),
                }
            }
        }
        rep.add_space("long texts: k filler tokens (junk / one repeated card / the cycling deck) then a new card, k = 0..=300 and 2^m - 1, 2^m, 2^m + 1 up to 65,537", &acc, t0, "a token cap or buffer limit shows only past the cap");
    }
    // (d4) call histories over a small alphabet of tokens and hand strings
    {
        let mut items = Vec::new();
        for t in ["AS", "as", "A♠", "KS", "kh", "0c", "T♦", "XX", "A", "", "1s", "\u{212A}S", "2♣zz", "SA", "9♧"] {
            items.push(Case::text("token", t, &[]));
        }
        for h in ["AS KS", "AS KS QS JS TS", "AS KS QS JS TS 9S", "AS KS QS JS TS 9S 8S", "AS XX", "AS", "", "KD QD JD TD 9D 8D 7D", "  AS   KS  ", "AS\u{3000}KS\u{3000}QS"] {
            items.push(Case::text("hand", h, &[]));
        }
        super::history2(rep, judge, &items);
    }
    // (e) round trip
    {
        let t0 = Instant::now();
        let mut acc = Acc::new(1);
        for c in deck() {
            acc.cases += 1;
            acc.calls += 2;
            acc.nontrivial += 1;
            if let Some(v) = confirm(judge, Case::w32("roundtrip", &[c.word()])) {
                acc.violate(v);
            }
        }
        rep.add_space("52 cards x 2 renderings parse back to the same card", &acc, t0, "");
    }
    rep.sample(sample_json("token", "t♡ / 0c / 1s / A", &format!("{} / {} / {} / {}", show_word(CKCNumber::from_index("t♡")), show_word(CKCNumber::from_index("0c")), show_word(CKCNumber::from_index("1s")), show_word(CKCNumber::from_index("A")))));
    let _ = Card::new(0, 0);
    rep.rule = "distinct scalar values and distinct strings; non-trivial = symbols, tokens that denote a card, and every hand string (each has a definite token count)".into();
    rep.bound = format!("symbol tables complete; tokens: one free char (all scalars) x all symbols of the other table, all strings of length <= {} over a 48-char alphabet, two-char heads x 6 tails; hands: token sequences up to 7 tokens over 7 tokens x 5 separator styles. The parsers read at most two chars of a token, so longer tails are data the code cannot observe", if thorough { 4 } else { 3 });
}
