//! C20 - multiples flags leave card fields intact, strip cleanly, and dominate order.
//!
//! Spaces: all 52 cards x all 8 mark combinations x all 6 orders of applying the three marks; every
//! (card, marks) x (card', marks') pair for the ordering clause (173,056 ordered pairs).
//! Oracle: layout formula + mark bits 29 (pair), 30 (trips), 31 (quads).
use super::{confirm, sample_json, Ctx};
use crate::engine::enumerate::permutations;
use crate::engine::evidence::{Acc, Case, Report, Verdict};
use crate::engine::monitor::guard;
use crate::oracle::cards::{deck, show_word, word_to_card, PRIMES, RANK_CHARS, SUIT_GLYPHS, SUIT_LETTERS};
use ckc_rs::PokerCard;
use std::time::Instant;

fn apply(w: u32, marks: u32, order: &[usize]) -> u32 {
    let mut x = w;
    for k in order {
        if marks & (1 << k) != 0 {
            x = match k {
                0 => x.flag_as_pair(),
                1 => x.flag_as_trips(),
                _ => x.flag_as_quads(),
            };
        }
    }
    x
}

/// Case kinds: "marks" [card word, mark set 0..8, order number 0..6]; "order" [card, marks, card', marks'].
pub fn judge(case: &Case) -> Verdict {
    let w = case.w32s();
    match case.kind.as_str() {
        "marks" => {
            if w.len() != 3 || w[1] >= 8 || w[2] >= 6 {
                return Verdict::NotJudged("card, marks, order".into());
            }
            let c = match word_to_card(w[0]) {
                Some(c) => c,
                None => return Verdict::NotJudged("a real card".into()),
            };
            let ord = &permutations(3)[w[2] as usize];
            let exp = w[0] | (w[1] << 29);
            let r = guard(|| {
                let x = apply(w[0], w[1], ord);
                let again = apply(x, w[1], ord);
                (x, again, x.strip_multiples_flags(), super::c10::rank_no(x.get_card_rank()), super::c10::suit_no(x.get_card_suit()), x.get_rank_prime(), x.get_rank_bit(), x.get_suit_bit(), x.get_rank_char(), x.get_suit_char(), x.get_suit_letter(), x.get_rank_flag(), x.get_suit_flag())
            });
            let (x, again, stripped, rk, st, prime, rbit, sbit, rc, sc, sl, rflag, sflag) = match r {
                Err(p) => return Verdict::Violated { class: "panic:marks".into(), expected: format!("{:#x}", exp), observed: format!("panic: {}", p) },
                Ok(v) => v,
            };
            if x != exp {
                return Verdict::Violated { class: "marks:sets-other-than-top-three-bits".into(), expected: format!("{:#x} = {} with marks {:#05b}", exp, show_word(w[0]), w[1]), observed: format!("{:#x}", x) };
            }
            if again != x {
                return Verdict::Violated { class: "marks:not-idempotent".into(), expected: format!("{:#x}", x), observed: format!("{:#x}", again) };
            }
            if stripped != w[0] {
                return Verdict::Violated { class: "strip:does-not-return-the-card".into(), expected: format!("{:#x} ({}) from {:#x}", w[0], show_word(w[0]), x), observed: format!("{:#x}", stripped) };
            }
            let (r, s) = (c.rank() as u32, c.suit() as u32);
            let fields_ok = rk as u32 == r + 2 && st as u32 == s + 1 && prime == PRIMES[r as usize] && rbit == 1 << r && sbit == 1 << s && rc == RANK_CHARS[r as usize] && sc == SUIT_GLYPHS[s as usize] && sl == SUIT_LETTERS[s as usize] && rflag == 1 << (16 + r) && sflag == 1 << (12 + s);
            if !fields_ok {
                return Verdict::Violated {
                    class: "marks:accessor-changed".into(),
                    expected: format!("rank, suit, prime, bits and characters of {} read unchanged on {:#x}", show_word(w[0]), x),
                    observed: format!("rank {} suit {} prime {} rank_bit {:#x} suit_bit {:#x} chars {}{}{}", rk, st, prime, rbit, sbit, rc, sc, sl),
                };
            }
            Verdict::Holds
        }
        "order" => {
            if w.len() != 4 || w[1] >= 8 || w[3] >= 8 || word_to_card(w[0]).is_none() || word_to_card(w[2]).is_none() {
                return Verdict::NotJudged("card, marks, card', marks'".into());
            }
            let top = |m: u32| if m == 0 { 0 } else { 32 - m.leading_zeros() }; // 0 none, 1 pair, 2 trips, 3 quads
            if top(w[1]) <= top(w[3]) {
                return Verdict::NotJudged("the statement only orders a higher mark above a lower one".into());
            }
            let ord = &permutations(3)[0];
            match guard(|| (apply(w[0], w[1], ord), apply(w[2], w[3], ord))) {
                Ok((x, y)) if x > y => Verdict::Holds,
                Ok((x, y)) => Verdict::Violated { class: "order:higher-mark-not-greater".into(), expected: format!("{} marked {:#05b} above {} marked {:#05b}", show_word(w[0]), w[1], show_word(w[2]), w[3]), observed: format!("{:#x} <= {:#x}", x, y) },
                Err(p) => Verdict::Violated { class: "panic:order".into(), expected: "two words".into(), observed: format!("panic: {}", p) },
            }
        }
        _ => Verdict::NotJudged("unknown kind".into()),
    }
}

pub fn run(_ctx: &Ctx, rep: &mut Report) {
    let d = deck();
    let t0 = Instant::now();
    let mut acc = Acc::new(1);
    for c in &d {
        for m in 0..8u32 {
            for o in 0..6u32 {
                acc.cases += 1;
                acc.calls += 14;
                if m != 0 {
                    acc.nontrivial += 1;
                }
                if let Some(v) = confirm(judge, Case::w32("marks", &[c.word(), m, o])) {
                    acc.violate(v);
                }
            }
        }
    }
    rep.add_space("52 cards x 8 mark sets x 6 application orders", &acc, t0, "value, idempotence, strip, ten accessors");
    let t0 = Instant::now();
    let mut acc = Acc::new(1);
    for a in &d {
        for m in 0..8u32 {
            for b in &d {
                for m2 in 0..8u32 {
                    acc.cases += 1;
                    acc.calls += 2;
                    match judge(&Case::w32("order", &[a.word(), m, b.word(), m2])) {
                        Verdict::NotJudged(_) => {}
                        Verdict::Holds => acc.nontrivial += 1,
                        Verdict::Violated { .. } => {
                            if let Some(v) = confirm(judge, Case::w32("order", &[a.word(), m, b.word(), m2])) {
                                acc.violate(v);
                            }
                        }
                    }
                }
            }
        }
    }
    rep.guard("173,056 ordered (card, marks) pairs", acc.cases == 173_056, format!("{}", acc.cases));
    rep.add_space("ordering: every (card, marks) x (card', marks')", &acc, t0, "higher top mark => numerically greater; in particular marked > every unmarked card");
    {
        let mut items = Vec::new();
        for c in d.iter().step_by(4) {
            for m in 0..8u32 {
                items.push(Case::w32("marks", &[c.word(), m, (m % 6)]));
            }
        }
        super::history2(rep, judge, &items);
    }
    let a = d[51].word();
    rep.sample(sample_json("marks", "2♣ flagged as pair", &format!("{:#x} > A♠ {:#x}: {}", a.flag_as_pair(), d[0].word(), a.flag_as_pair() > d[0].word())));
    rep.rule = "distinct (card, mark set, application order) triples and ordered pairs of marked cards; non-trivial = at least one mark set / pairs whose top marks differ (the ones the statement orders)".into();
    rep.bound = "none: whole domain".into();
}
