//! C15 - card bit-sets behave as sets: union, subset, count, validity, ordered peel.
//!
//! E2 (explicit-state graph, real `fold_in` / `peel` as the transition function):
//!   universe U = 10 card bits spread over all suits (0, 1, 12, 13, 25, 26, 38, 39, 50, 51) + 2 overflow bits
//!   (52, 63); states = all 4,096 subsets; actions = fold_in(single) x 12, fold_in(pair) x 66, peel; the invariant
//!   (membership for every sub-set of U, count, single-card test, validity) is evaluated in every state against
//!   a BTreeSet model and the step relation on every edge. The graph is closed, so every fold/peel history of any
//!   length over U is covered.
//! E1 families over all 64 bits: every set with <= 4 members and every complement, peeled to exhaustion (listing =
//!   members in deck order, then blank forever, overflow bits untouched), with count / validity / membership;
//!   from_two..from_seven on all tuples over S53 (sizes 2..4) and all multisets (5..7; thorough adds rotations),
//!   plus tuples over an alphabet with non-card words; from_index on token sequences.
use super::hands::AnyHand;
use super::{confirm, sample_json, Ctx};
use crate::engine::enumerate::{multisets_first, par_parts, tuple_decode};
use crate::engine::evidence::{profile_name, Acc, Case, Report, Verdict, Violation};
use crate::engine::explore::Bfs;
use crate::engine::monitor::{self, guard};
use crate::oracle::cards::{show_words, sigma53, word_to_card, Card};
use crate::oracle::misc::{parse_token, tokens};
use ckc_rs::cards::binary_card::{BinaryCard, BC64};
use ckc_rs::cards::five::Five;
use ckc_rs::cards::four::Four;
use ckc_rs::cards::seven::Seven;
use ckc_rs::cards::six::Six;
use ckc_rs::cards::three::Three;
use ckc_rs::cards::two::Two;
use std::collections::BTreeSet;
use std::time::Instant;

pub const UNIVERSE: [u8; 12] = [0, 1, 12, 13, 25, 26, 38, 39, 50, 51, 52, 63];
/// thorough tier: two more non-card bits (14 bits, 16,384 sets)
pub const UNIVERSE_THOROUGH: [u8; 14] = [0, 1, 12, 13, 25, 26, 38, 39, 50, 51, 52, 53, 57, 63];

#[derive(Clone, Debug, PartialEq, Eq, Hash)]
struct St {
    real: u64,
    model: BTreeSet<u8>,
}

#[derive(Clone, Debug)]
enum Act {
    Fold(u64),
    Peel,
}

fn mask_of(m: &BTreeSet<u8>) -> u64 {
    m.iter().fold(0u64, |a, b| a | 1u64 << b)
}
fn bits_of(x: u64) -> BTreeSet<u8> {
    (0..64u8).filter(|b| x >> b & 1 == 1).collect()
}

/// the state invariant against the model; `probes` are the sub-sets membership is asked about
fn invariant(real: u64, model: &BTreeSet<u8>, probes: &[(u64, BTreeSet<u8>)]) -> Result<(), String> {
    if real != mask_of(model) {
        return Err(format!("set-content: real {:#x} but the model holds {:?}", real, model));
    }
    let r = guard(|| {
        let n = real.number_of_cards();
        let single = real.is_single_card();
        let valid = real.is_valid();
        let mut bad_probe = None;
        for (p, pset) in probes {
            let exp = pset.is_subset(model);
            if real.has(*p) != exp {
                bad_probe = Some((*p, exp));
                break;
            }
        }
        (n, single, valid, bad_probe)
    });
    match r {
        Err(p) => Err(format!("panic: {}", p)),
        Ok((n, single, valid, bad_probe)) => {
            if n as usize != model.len() {
                return Err(format!("number_of_cards: {} for a set of {} members", n, model.len()));
            }
            // is_single_card is the count clause observed at another helper; judged where the set holds card bits only
            if model.iter().all(|b| *b < 52) && single != (model.len() == 1) {
                return Err(format!("is_single_card: {} for a set of {} members", single, model.len()));
            }
            let exp_valid = !model.is_empty() && model.iter().all(|b| *b < 52);
            if valid != exp_valid {
                return Err(format!("is_valid: {} for {:?} (non-empty and no bit above the 52 card bits: {})", valid, model, exp_valid));
            }
            if let Some((p, exp)) = bad_probe {
                return Err(format!("has: has({:#x}) should be {} (subset test) on {:?}", p, exp, model));
            }
            Ok(())
        }
    }
}

fn step(s: &St, a: &Act) -> Result<St, String> {
    match a {
        Act::Fold(x) => {
            let real = guard(|| s.real.fold_in(*x)).map_err(|p| format!("panic in fold_in: {}", p))?;
            let mut model = s.model.clone();
            model.extend(bits_of(*x));
            if real != mask_of(&model) {
                return Err(format!("fold_in-is-not-union: {:#x} fold_in {:#x} gave {:#x}, union is {:#x}", s.real, x, real, mask_of(&model)));
            }
            Ok(St { real, model })
        }
        Act::Peel => {
            let mut real = s.real;
            let got = guard(|| real.peel()).map_err(|p| format!("panic in peel: {}", p))?;
            let mut model = s.model.clone();
            let top = model.iter().copied().filter(|b| *b < 52).max();
            let exp = match top {
                Some(b) => {
                    model.remove(&b);
                    1u64 << b
                }
                None => 0,
            };
            if got != exp {
                return Err(format!("peel-returns-wrong-card: peel of {:?} returned {:#x}, the highest remaining card in deck order is {:#x}", s.model, got, exp));
            }
            if real != mask_of(&model) {
                return Err(format!("peel-leaves-wrong-set: after peeling {:?} the set is {:#x}, expected {:#x}", s.model, real, mask_of(&model)));
            }
            Ok(St { real, model })
        }
    }
}

fn act_code(a: &Act) -> u64 {
    match a {
        Act::Peel => u64::MAX,
        Act::Fold(x) => *x,
    }
}
fn act_label(a: &Act) -> String {
    match a {
        Act::Peel => "peel".into(),
        Act::Fold(x) => format!("fold_in({:#x})", x),
    }
}

fn peel_all(set: u64) -> Result<(), (String, String, String)> {
    let model = bits_of(set);
    let cards: Vec<u8> = model.iter().copied().filter(|b| *b < 52).rev().collect(); // deck order = highest bit first
    let overflow: u64 = set & !((1u64 << 52) - 1);
    let r = guard(|| {
        let mut s = set;
        let mut listed = Vec::new();
        for _ in 0..cards.len() + 2 {
            listed.push(s.peel());
        }
        (listed, s, set.number_of_cards(), set.is_valid(), set.is_single_card())
    });
    let (listed, rest, n, valid, single) = match r {
        Err(p) => return Err(("panic".into(), "a listing".into(), format!("panic: {}", p))),
        Ok(x) => x,
    };
    let mut exp: Vec<u64> = cards.iter().map(|b| 1u64 << b).collect();
    exp.push(0);
    exp.push(0);
    if listed != exp {
        return Err(("peel-sequence-not-deck-order".into(), format!("{:x?} for set {:#x}", exp, set), format!("{:x?}", listed)));
    }
    if rest != overflow {
        return Err(("peel-exhaustion-changes-non-card-bits".into(), format!("{:#x} left", overflow), format!("{:#x}", rest)));
    }
    if n as usize != model.len() || (overflow == 0 && single != (model.len() == 1)) {
        return Err(("count".into(), format!("{} members", model.len()), format!("number_of_cards {} is_single_card {}", n, single)));
    }
    let ev = set != 0 && overflow == 0;
    if valid != ev {
        return Err(("is_valid".into(), format!("{} for {:#x}", ev, set), format!("{}", valid)));
    }
    Ok(())
}

fn from_hand(w: &[u32]) -> u64 {
    match w.len() {
        2 => BinaryCard::from_two(Two::from([w[0], w[1]])),
        3 => BinaryCard::from_three(Three::from([w[0], w[1], w[2]])),
        4 => BinaryCard::from_four(Four::from([w[0], w[1], w[2], w[3]])),
        5 => BinaryCard::from_five(Five::from([w[0], w[1], w[2], w[3], w[4]])),
        6 => BinaryCard::from_six(Six::from([w[0], w[1], w[2], w[3], w[4], w[5]])),
        _ => BinaryCard::from_seven(Seven::from([w[0], w[1], w[2], w[3], w[4], w[5], w[6]])),
    }
}
fn model_from_hand(w: &[u32]) -> u64 {
    w.iter().filter_map(|x| word_to_card(*x)).fold(0u64, |m, c| m | c.bit())
}

/// Case kinds: "graph" [action codes from the empty set: a mask = fold_in(mask), u64::MAX = peel];
/// "peel_all" [set]; "from_hand" [words]; "from_index" (text).
pub fn judge(case: &Case) -> Verdict {
    match case.kind.as_str() {
        "graph" => {
            let probes = probe_sets(&UNIVERSE_THOROUGH);
            let mut s = St { real: 0, model: BTreeSet::new() };
            for (i, code) in case.words.iter().enumerate() {
                if let Err(e) = invariant(s.real, &s.model, &probes) {
                    return Verdict::Violated { class: format!("graph:{}", e.split(':').next().unwrap_or("invariant")), expected: "the set invariant in every state".into(), observed: format!("before action {}: {}", i, e) };
                }
                let a = if *code == u64::MAX { Act::Peel } else { Act::Fold(*code) };
                match step(&s, &a) {
                    Ok(n) => s = n,
                    Err(e) => return Verdict::Violated { class: format!("graph:{}", e.split(':').next().unwrap_or("step")), expected: format!("{} behaves as on the model", act_label(&a)), observed: format!("action {}: {}", i, e) },
                }
            }
            match invariant(s.real, &s.model, &probes) {
                Ok(()) => Verdict::Holds,
                Err(e) => Verdict::Violated { class: format!("graph:{}", e.split(':').next().unwrap_or("invariant")), expected: "the set invariant in every state".into(), observed: format!("in the final state: {}", e) },
            }
        }
        "peel_all" => match peel_all(case.words.first().copied().unwrap_or(0)) {
            Ok(()) => Verdict::Holds,
            Err((c, e, o)) => Verdict::Violated { class: format!("peel_all:{}", c), expected: e, observed: o },
        },
        "from_hand" => {
            let w = case.w32s();
            if !(2..=7).contains(&w.len()) {
                return Verdict::NotJudged("2..7 words".into());
            }
            let exp = model_from_hand(&w);
            match guard(|| from_hand(&w)) {
                Err(p) => Verdict::Violated { class: "panic:from_hand".into(), expected: format!("{:#x}", exp), observed: format!("panic: {}", p) },
                Ok(b) if b != exp => Verdict::Violated { class: format!("from_{}:not-the-set-of-distinct-real-cards", AnyHand::size_name(w.len())), expected: format!("{:#x} for [{}]", exp, show_words(&w)), observed: format!("{:#x}", b) },
                Ok(_) => Verdict::Holds,
            }
        }
        "from_index" => {
            let s = match &case.text {
                Some(s) => s.clone(),
                None => return Verdict::NotJudged("no text".into()),
            };
            let exp = tokens(&s).iter().filter_map(|t| word_to_card(parse_token(t))).fold(0u64, |m, c| m | c.bit());
            match guard(|| BinaryCard::from_index(&s)) {
                Err(p) => Verdict::Violated { class: "panic:from_index".into(), expected: format!("{:#x}", exp), observed: format!("panic: {}", p) },
                Ok(b) if b != exp => Verdict::Violated { class: "from_index:not-the-set-of-card-tokens".into(), expected: format!("{:#x} for {:?}", exp, s), observed: format!("{:#x}", b) },
                Ok(_) => Verdict::Holds,
            }
        }
        _ => Verdict::NotJudged("unknown kind".into()),
    }
}

fn subset_of(universe: &[u8], code: u64) -> u64 {
    (0..universe.len()).filter(|i| code >> i & 1 == 1).fold(0u64, |m, i| m | 1u64 << universe[i])
}
fn probe_sets(universe: &[u8]) -> Vec<(u64, BTreeSet<u8>)> {
    (0..1u64 << universe.len()).map(|c| subset_of(universe, c)).map(|m| (m, bits_of(m))).collect()
}

fn check_from_hand(acc: &mut Acc, w: &[u32]) {
    acc.cases += 1;
    acc.calls += 1;
    let exp = model_from_hand(w);
    if (exp.count_ones() as usize) < w.len() {
        acc.nontrivial += 1; // a blank, a non-card word or a repeated card must be dropped / merged
    }
    if !matches!(guard(|| from_hand(w)), Ok(b) if b == exp) {
        match confirm(judge, Case::w32("from_hand", w)) {
            Some(v) => acc.violate(v),
            None => super::unreproduced("C15 from_hand mismatch not reproduced"),
        }
    }
}

pub fn run(ctx: &Ctx, rep: &mut Report) {
    let thorough = ctx.tier.thorough();
    // E2
    {
        let t0 = Instant::now();
        let universe: Vec<u8> = if thorough { UNIVERSE_THOROUGH.to_vec() } else { UNIVERSE.to_vec() };
        let ub = universe.len();
        let nstates = 1u64 << ub;
        let probes = probe_sets(&universe);
        let mut actions: Vec<Act> = Vec::new();
        for i in 0..ub {
            actions.push(Act::Fold(1u64 << universe[i]));
        }
        for i in 0..ub {
            for j in i + 1..ub {
                actions.push(Act::Fold(1u64 << universe[i] | 1u64 << universe[j]));
            }
        }
        actions.push(Act::Peel);
        let full = subset_of(&universe, nstates - 1);
        let inits = vec![(St { real: 0, model: BTreeSet::new() }, "empty set".to_string()), (St { real: full, model: bits_of(full) }, "all of U".to_string())];
        let ex = Bfs { inits, actions: &actions, step: &step, invariant: &|s: &St| invariant(s.real, &s.model, &probes), label: &act_label, max_states: nstates }.run();
        let mut acc = Acc::new(1);
        acc.cases = ex.states;
        acc.calls = ex.transitions + ex.states * (probes.len() as u64 + 3);
        acc.nontrivial = ex.states.saturating_sub(1);
        rep.hist_add("graph:states", ex.states);
        rep.hist_add("graph:transitions", ex.transitions);
        rep.hist_add("graph:max_depth", ex.max_depth as u64);
        rep.hist_add("graph:actions", actions.len() as u64);
        rep.hist_add("graph:membership_probes_per_state", probes.len() as u64);
        if let Some((trace, why)) = &ex.violation {
            // rebuild the replayable action list from the trace labels
            let codes: Vec<u64> = trace.iter().skip(1).map(|l| actions.iter().find(|a| act_label(a) == *l).map(act_code).unwrap_or(0)).collect();
            let from_full = trace.first().map(|t| t.contains("all of U")).unwrap_or(false);
            let mut codes_full = codes.clone();
            if from_full {
                codes_full.insert(0, full);
            }
            let case = Case::new("graph", &codes_full);
            match confirm(judge, case.clone()) {
                Some(mut v) => {
                    v.trace = trace.clone();
                    acc.violate(v);
                }
                None => acc.violate(Violation { class: "graph:unreplayed".into(), case, expected: "invariant".into(), observed: why.clone(), profile: profile_name().into(), trace: trace.clone() }),
            }
        } else {
            rep.guard("closed graph: exactly the 2^|U| subsets of U were reached", ex.states == nstates, format!("{} states", ex.states));
            rep.guard("every state has all its outgoing edges executed", ex.transitions == nstates * actions.len() as u64, format!("{} transitions", ex.transitions));
        }
        rep.sample(sample_json("graph", "empty -> fold_in(bit 51) -> fold_in(bits 0,63) -> peel", &format!("{:?}", {
            let mut s = 0u64.fold_in(1 << 51).fold_in(1 | 1 << 63);
            let c = s.peel();
            (format!("{:#x}", c), format!("{:#x}", s))
        })));
        rep.add_space(&format!("E2: state graph over {} bits ({} sets) x {} actions, invariant with {} membership probes per state", ub, nstates, actions.len(), probes.len()), &acc, t0, "breadth-first until the frontier is empty; real fold_in / peel as transitions");
    }
    // E1: small sets and complements over all 64 bits, peeled to exhaustion
    {
        let t0 = Instant::now();
        let kind = monitor::kind_id("peel_all");
        let accs = par_parts(64, |i| {
            let mut acc = Acc::new(1);
            let mut go = |set: u64, acc: &mut Acc| {
                for s in [set, !set] {
                    monitor::beat(kind, &[s]);
                    acc.cases += 1;
                    acc.calls += (s & ((1u64 << 52) - 1)).count_ones() as u64 + 5;
                    if s >> 52 != 0 || s == 0 {
                        acc.nontrivial += 1;
                    }
                    if peel_all(s).is_err() {
                        match confirm(judge, Case::new("peel_all", &[s])) {
                            Some(v) => acc.violate(v),
                            None => super::unreproduced("C15 peel_all mismatch not reproduced"),
                        }
                    }
                }
            };
            if i == 0 {
                go(0, &mut acc);
            }
            go(1u64 << i, &mut acc);
            for j in 0..i {
                go(1u64 << i | 1u64 << j, &mut acc);
                for k in 0..j {
                    go(1u64 << i | 1u64 << j | 1u64 << k, &mut acc);
                    for l in 0..k {
                        go(1u64 << i | 1u64 << j | 1u64 << k | 1u64 << l, &mut acc);
                    }
                }
            }
            acc
        });
        let acc = Acc::merged(accs);
        rep.guard("2 x 679,121 sets", acc.cases == 2 * 679_121, format!("{}", acc.cases));
        rep.add_space("every set with <= 4 members over all 64 bits and every complement, peeled to exhaustion", &acc, t0, "listing = members in deck order, then blank twice, non-card bits untouched; count, single, validity");
    }
    // from_two .. from_seven
    let kind = monitor::kind_id("from_hand");
    for n in 2..=4usize {
        let t0 = Instant::now();
        let total = 53u64.pow(n as u32);
        let accs = par_parts(53, |p| {
            let mut acc = Acc::new(1);
            let mut idx = vec![0usize; n];
            let mut w = vec![0u32; n];
            monitor::beat(kind, &[n as u64, p as u64]);
            for t in (total * p as u64 / 53)..(total * (p as u64 + 1) / 53) {
                tuple_decode(t, 53, &mut idx);
                for i in 0..n {
                    w[i] = sigma53(idx[i]);
                }
                check_from_hand(&mut acc, &w);
            }
            acc
        });
        let acc = Acc::merged(accs);
        rep.add_space(&format!("from_{}: all 53^{} tuples over S53", AnyHand::size_name(n), n), &acc, t0, "");
    }
    for n in 5..=7usize {
        let t0 = Instant::now();
        let rots: Vec<usize> = if thorough { (0..n).collect() } else if n == 7 { vec![3] } else { vec![0, n / 2] };
        let accs = par_parts(53, |first| {
            let mut acc = Acc::new(1);
            let mut w = vec![0u32; n];
            monitor::beat(kind, &[n as u64, first as u64]);
            multisets_first(53, n, first, &mut |idx| {
                for b in &rots {
                    for i in 0..n {
                        w[(i + b) % n] = sigma53(idx[i]);
                    }
                    check_from_hand(&mut acc, &w);
                }
                if idx[n - 1] == 52 && idx[n - 2] == 52 {
                    monitor::tick();
                }
            });
            acc
        });
        let acc = Acc::merged(accs);
        rep.add_space(&format!("from_{}: all {}-slot multisets over S53 x {} rotation(s)", AnyHand::size_name(n), n, rots.len()), &acc, t0, "with repetition and blanks");
    }
    {
        // non-card words in the slots contribute nothing
        let t0 = Instant::now();
        let a = Card::new(12, 3).word();
        let b = Card::new(0, 0).word();
        let al = [a, b, 0, a | (1 << 29), a ^ 1, u32::MAX, 23];
        let mut acc = Acc::new(1);
        for n in 2..=7usize {
            let total = 7u64.pow(n as u32);
            let mut idx = vec![0usize; n];
            let mut w = vec![0u32; n];
            for t in 0..total {
                tuple_decode(t, 7, &mut idx);
                for i in 0..n {
                    w[i] = al[idx[i]];
                }
                check_from_hand(&mut acc, &w);
            }
        }
        rep.add_space("from_two..from_seven: all tuples over {2 cards, blank, 4 non-card words}", &acc, t0, "flagged card, single-bit corruption, 0xFFFFFFFF, 23");
    }
    // from_index
    {
        let t0 = Instant::now();
        let toks = ["AS", "kh", "T♦", "0c", "XX", "A", "2♣zz", "AS"];
        let seps = [" ", "\t\n", "\u{3000} "];
        let mut acc = Acc::new(1);
        let maxl = if thorough { 6 } else { 5 };
        for len in 0..=maxl {
            let total = (toks.len() as u64).pow(len as u32);
            let mut idx = vec![0usize; len];
            for t in 0..total {
                tuple_decode(t, toks.len() as u64, &mut idx);
                for (si, sep) in seps.iter().enumerate() {
                    let mut s = String::new();
                    if si == 2 {
                        s.push_str(sep);
                    }
                    for (k, i) in idx.iter().enumerate() {
                        if k > 0 {
                            s.push_str(sep);
                        }
                        s.push_str(toks[*i]);
                    }
                    if si >= 1 {
                        s.push_str(sep);
                    }
                    acc.cases += 1;
                    acc.calls += 1;
                    acc.nontrivial += 1;
                    if let Verdict::Violated { .. } = judge(&Case::text("from_index", &s, &[])) {
                        if let Some(v) = confirm(judge, Case::text("from_index", &s, &[])) {
                            acc.violate(v);
                        }
                    }
                }
            }
        }
        rep.add_space(&format!("from_index: all token sequences of length 0..={} over 8 tokens x 3 separator styles", maxl), &acc, t0, "result = set of the distinct card tokens");
    }
    // from_index: every Unicode scalar value as the separator between two card tokens, as the rank character before a
    // suit symbol, and as the suit character after a rank symbol (the set must contain exactly the card tokens)
    {
        let t0 = Instant::now();
        let kind = monitor::kind_id("from_index");
        let accs = par_parts(0x110, |p| {
            let mut acc = Acc::new(1);
            let mut s = String::new();
            monitor::beat(kind, &[(p as u64) << 12]);
            for u in (p as u32) << 12..(p as u32 + 1) << 12 {
                if let Some(ch) = char::from_u32(u) {
                    for form in 0..3 {
                        s.clear();
                        match form {
                            0 => {
                                s.push_str("AS");
                                s.push(ch);
                                s.push_str("KD");
                            }
                            1 => {
                                s.push_str("2C ");
                                s.push(ch);
                                s.push('h');
                            }
                            _ => {
                                s.push_str("2C Q");
                                s.push(ch);
                            }
                        }
                        acc.cases += 1;
                        acc.calls += 1;
                        let exp = tokens(&s).iter().filter_map(|t| word_to_card(parse_token(t))).fold(0u64, |m, c| m | c.bit());
                        if exp.count_ones() == 2 {
                            acc.nontrivial += 1;
                        }
                        if !matches!(guard(|| BinaryCard::from_index(&s)), Ok(b) if b == exp) {
                            match confirm(judge, Case::text("from_index", &s, &[])) {
                                Some(v) => acc.violate(v),
                                None => super::unreproduced("C15 from_index scalar sweep mismatch not reproduced"),
                            }
                        }
                    }
                }
            }
            acc
        });
        let acc = Acc::merged(accs);
        rep.add_space("from_index: every Unicode scalar value as separator, as rank character and as suit character", &acc, t0, "3 x 1,112,064 texts");
    }
    {
        let t0 = Instant::now();
        let mut acc = Acc::new(1);
        for s in super::c12::long_texts() {
            acc.cases += 1;
            acc.calls += 1;
            acc.nontrivial += 1;
            if let Verdict::Violated { .. } = judge(&Case::text("from_index", &s, &[])) {
                if let Some(v) = confirm(judge, Case::text("from_index", &s, &[])) {
                    acc.violate(v);
                }
            }
        }
        rep.add_space("from_index: long texts (k filler tokens then a new card, k = 0..=300 and around powers of two up to 65,537)", &acc, t0, "a set built from text must contain a card however late its token comes");
    }
    {
        let mut items = Vec::new();
        for s in [0u64, 1, 1 << 51, (1 << 51) | 1, 1 << 52, (1 << 52) | 1, 0xF, 0xF000_0000_0000_000F, (1u64 << 52) - 1, u64::MAX] {
            items.push(Case::new("peel_all", &[s]));
        }
        let a = Card::new(12, 3).word();
        let b = Card::new(0, 0).word();
        for n in 2..=7usize {
            items.push(Case::w32("from_hand", &vec![a; n]));
            let mut w = vec![b; n];
            w[0] = a;
            w[n - 1] = 0;
            items.push(Case::w32("from_hand", &w));
        }
        for t in ["", "AS", "AS KS", "XX AS", "AS AS 2C", "2C"] {
            items.push(Case::text("from_index", t, &[]));
        }
        items.push(Case::new("graph", &[1 << 51, (1 << 52) | 1, u64::MAX, u64::MAX]));
        items.push(Case::new("graph", &[(1 << 50) | (1 << 63), u64::MAX, 1 << 12, u64::MAX]));
        super::history2(rep, judge, &items);
    }
    rep.rule = "graph states (sets over U) and edges; distinct 64-bit sets; distinct ordered hands / strings. Non-trivial = non-empty graph states, sets with overflow bits or empty, hands in which something must be dropped or merged".into();
    rep.bound = "fold/peel histories of ANY length over a 12-bit universe (closed graph); all sets with <= 4 members and their complements over 64 bits; from_n: all tuples (n <= 4), all multisets (n >= 5) over S53; the remaining 2^64 sets are outside".into();
    rep.assume("the state key is the complete observable content (the u64), so merged states have identical futures");
}
