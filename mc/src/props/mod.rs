//! One module per property. Each exposes
//!   `run(ctx, rep)`   - the exhaustive exploration (tier-dependent spaces),
//!   `judge(case)`     - the canonical single-case oracle used to confirm every fast-path mismatch twice and to
//!                       replay a violation file without any enumeration.
use crate::engine::evidence::{profile_name, Case, Report, Tier, Verdict, Violation};
use crate::engine::json::Json;
use crate::engine::monitor;
use crate::oracle::poker::Oracle;
use std::sync::OnceLock;

pub mod consts;
pub mod variants;
pub mod hands;
pub mod history;
pub mod c01;
pub mod c02;
pub mod c04;
pub mod c05;
pub mod c06;
pub mod c07;
pub mod c08;
pub mod c09;
pub mod c10;
pub mod c11;
pub mod c12;
pub mod c13;
pub mod c14;
pub mod c15;
pub mod c16;
pub mod c17;
pub mod c18;
pub mod c19;
pub mod c20;

pub struct Ctx {
    pub id: String,
    pub tier: Tier,
    pub seed: u64,
    pub child: bool,
    /// lean run (the unoptimised `dbg` profile): only the cheap spaces of a property are explored
    pub lean: bool,
    /// cold-start probe child: a fresh process whose threads all make their FIRST call into the crate at the same moment
    pub probe: bool,
    /// Some((k, n)): this process is shard k of n of a sharded single-threaded history space and runs nothing else
    pub shard: Option<(usize, usize)>,
}

/// Runs the property's shardable history spaces in `n` child PROCESSES (each single-threaded: process-wide hidden
/// state in the crate under test cannot be disturbed by another shard) and merges their reports.
pub fn spawn_shards(ctx: &Ctx, rep: &mut Report, n: usize) {
    let exe = std::env::current_exe().unwrap_or_else(|_| monitor::machinery_fail("cannot locate the harness binary"));
    let mut kids = Vec::new();
    for k in 0..n {
        let out = std::env::temp_dir().join(format!("ckc-mc-shard-{}-{}-{}.json", ctx.id, std::process::id(), k));
        let child = std::process::Command::new(&exe)
            .args(["run", &ctx.id, ctx.tier.name(), "--child", out.to_str().unwrap(), "--shard", &k.to_string(), &n.to_string()])
            .args(if ctx.lean { vec!["--lean"] } else { vec![] })
            .env("CKC_MC_QUIET", "1")
            .spawn()
            .unwrap_or_else(|_| monitor::machinery_fail("cannot spawn a shard process"));
        kids.push((child, out));
    }
    let before = rep.spaces.len();
    for (mut child, out) in kids {
        match child.wait() {
            Ok(s) if s.success() => {
                let text = std::fs::read_to_string(&out).unwrap_or_else(|_| monitor::machinery_fail("shard report missing"));
                let _ = std::fs::remove_file(&out);
                let j = Json::parse(&text).unwrap_or_else(|e| monitor::machinery_fail(&format!("shard report unreadable: {}", e)));
                rep.merge_shard(&j);
            }
            Ok(s) if s.code() == Some(1) => std::process::exit(1), // the shard's hang watchdog already printed its VIOLATION line
            _ => monitor::machinery_fail("a shard process failed"),
        }
    }
    for s in &rep.spaces[before..] {
        eprintln!("[{} {}] space {:<44} cases {:>14} calls {:>15} (merged from {} shard processes) {:.1}s", ctx.id, profile_name(), s.name, s.cases, s.calls, n, s.wall_s);
    }
}

static ORACLE: OnceLock<Oracle> = OnceLock::new();
pub fn oracle() -> &'static Oracle {
    ORACLE.get_or_init(|| match Oracle::new() {
        Ok(o) => o,
        Err(e) => monitor::machinery_fail(&format!("poker oracle self-check failed: {}", e)),
    })
}

pub type Judge = fn(&Case) -> Verdict;

pub struct Prop {
    pub id: &'static str,
    pub run: fn(&Ctx, &mut Report),
    pub judge: Judge,
    /// does the tier also run in the overflow-checked profile?
    pub both_profiles: fn(Tier) -> bool,
    /// thorough tier: also a lean run with the crate compiled unoptimised (the default `cargo test` code generation)
    pub dbg_lean: bool,
    /// cheap property: the whole quick/thorough run of the release profile is repeated with a Trace-level logger installed
    pub trace_rerun: bool,
    /// does the statement promise a normal return (so that a hang is a violation and not a machinery error)?
    pub promises_return: bool,
}

fn always(_: Tier) -> bool {
    true
}
fn in_thorough(t: Tier) -> bool {
    t.thorough()
}

pub fn registry() -> Vec<Prop> {
    vec![
        Prop { id: "C01", run: c01::run, judge: c01::judge, both_profiles: always, dbg_lean: true, trace_rerun: false, promises_return: true },
        Prop { id: "C02", run: c02::run_c02, judge: c02::judge, both_profiles: always, dbg_lean: true, trace_rerun: false, promises_return: true },
        Prop { id: "C03", run: c02::run_c03, judge: c02::judge, both_profiles: always, dbg_lean: true, trace_rerun: false, promises_return: true },
        Prop { id: "C04", run: c04::run, judge: c04::judge, both_profiles: in_thorough, dbg_lean: false, trace_rerun: false, promises_return: true },
        Prop { id: "C05", run: c05::run, judge: c05::judge, both_profiles: always, dbg_lean: true, trace_rerun: false, promises_return: true },
        Prop { id: "C06", run: c06::run, judge: c06::judge, both_profiles: always, dbg_lean: false, trace_rerun: false, promises_return: true },
        Prop { id: "C07", run: c07::run, judge: c07::judge, both_profiles: in_thorough, dbg_lean: false, trace_rerun: true, promises_return: true },
        Prop { id: "C08", run: c08::run, judge: c08::judge, both_profiles: in_thorough, dbg_lean: false, trace_rerun: false, promises_return: true },
        Prop { id: "C09", run: c09::run, judge: c09::judge, both_profiles: always, dbg_lean: true, trace_rerun: false, promises_return: true },
        Prop { id: "C10", run: c10::run, judge: c10::judge, both_profiles: always, dbg_lean: false, trace_rerun: true, promises_return: true },
        Prop { id: "C11", run: c11::run, judge: c11::judge, both_profiles: always, dbg_lean: true, trace_rerun: true, promises_return: true },
        Prop { id: "C12", run: c12::run, judge: c12::judge, both_profiles: always, dbg_lean: false, trace_rerun: true, promises_return: true },
        Prop { id: "C13", run: c13::run, judge: c13::judge, both_profiles: always, dbg_lean: false, trace_rerun: true, promises_return: true },
        Prop { id: "C14", run: c14::run, judge: c14::judge, both_profiles: always, dbg_lean: false, trace_rerun: true, promises_return: true },
        Prop { id: "C15", run: c15::run, judge: c15::judge, both_profiles: in_thorough, dbg_lean: false, trace_rerun: false, promises_return: true },
        Prop { id: "C16", run: c16::run, judge: c16::judge, both_profiles: always, dbg_lean: false, trace_rerun: true, promises_return: true },
        Prop { id: "C17", run: c17::run, judge: c17::judge, both_profiles: always, dbg_lean: false, trace_rerun: true, promises_return: true },
        Prop { id: "C18", run: c18::run, judge: c18::judge, both_profiles: always, dbg_lean: false, trace_rerun: true, promises_return: true },
        Prop { id: "C19", run: c19::run, judge: c19::judge, both_profiles: always, dbg_lean: false, trace_rerun: true, promises_return: true },
        Prop { id: "C20", run: c20::run, judge: c20::judge, both_profiles: always, dbg_lean: false, trace_rerun: true, promises_return: true },
    ]
}

/// A fast-path mismatch is only reported after the canonical judge reproduced it twice, identically
/// (pure functions: a divergence is a machinery error, never a verdict).
pub fn confirm(judge: Judge, case: Case) -> Option<Violation> {
    let first = judge(&case);
    let second = judge(&case);
    let unstable = |observed: String, case: Case| Violation {
        class: format!("result-not-reproducible:{}", case.kind),
        case,
        expected: "the same result whenever the same call is repeated".into(),
        observed,
        profile: profile_name().to_string(),
        trace: Vec::new(),
    };
    match (first, second) {
        (Verdict::Violated { class, expected, observed }, Verdict::Violated { class: c2, observed: o2, .. }) => {
            if class != c2 || observed != o2 {
                // pure functions cannot do this: the code under test answers differently on identical calls
                return Some(unstable(format!("two consecutive executions violated differently: '{}' then '{}'", observed, o2), case));
            }
            Some(Violation { class, case, expected, observed, profile: profile_name().to_string(), trace: Vec::new() })
        }
        (Verdict::Holds, Verdict::Holds) => None,
        (Verdict::NotJudged(_), Verdict::NotJudged(_)) => None,
        (Verdict::Violated { observed, .. }, _) | (_, Verdict::Violated { observed, .. }) => Some(unstable(format!("one of two consecutive executions of the same case violated ({}), the other did not: the result depends on something other than the input", observed), case)),
        _ => monitor::machinery_fail(&format!("judge gave two inconsistent verdicts on {:?}", case)),
    }
}

/// Like `confirm`, but the enumeration's own fast oracle already said "mismatch": if the judge does not reproduce it
/// the crate returned a wrong answer once and a right one on re-execution, i.e. its result is history dependent.
pub fn confirm_mismatch(judge: Judge, case: Case) -> Violation {
    match confirm(judge, case.clone()) {
        Some(v) => v,
        None => Violation {
            class: format!("result-not-reproducible:{}", case.kind),
            case,
            expected: "the same result whenever the same call is repeated".into(),
            observed: "the enumeration observed a wrong result for this case once; two immediate re-executions gave the right one - the result depends on something other than the input (hidden state, call history)".into(),
            profile: profile_name().to_string(),
            trace: Vec::new(),
        },
    }
}

/// Cold-start probe (NOT exhaustive, a supplementary schedule sample): `rounds` fresh processes, in each of which 16
/// threads wait at a barrier and then make their first calls into the crate simultaneously. Process-wide state that is
/// initialised lazily on first use (a table filled by "the first caller") is only observable in that window. The
/// crate has no threads, locks or atomics of its own, so there is nothing for a controlled scheduler to intercept; this
/// probe can only FIND such a race (a wrong answer observed is a real violation), it cannot exclude one.
pub fn cold_start_probe(ctx: &Ctx, rep: &mut Report, rounds: usize) {
    let exe = std::env::current_exe().unwrap_or_else(|_| monitor::machinery_fail("cannot locate the harness binary"));
    let mut probes = 0u64;
    for k in 0..rounds {
        let out = std::env::temp_dir().join(format!("ckc-mc-probe-{}-{}-{}.json", ctx.id, std::process::id(), k));
        let st = std::process::Command::new(&exe).args(["run", &ctx.id, ctx.tier.name(), "--child", out.to_str().unwrap(), "--probe"]).env("CKC_MC_QUIET", "1").status();
        match st {
            Ok(s) if s.success() => {
                let text = std::fs::read_to_string(&out).unwrap_or_else(|_| monitor::machinery_fail("probe report missing"));
                let _ = std::fs::remove_file(&out);
                let j = Json::parse(&text).unwrap_or_else(|e| monitor::machinery_fail(&format!("probe report unreadable: {}", e)));
                probes += j.get("evaluations").and_then(|x| x.as_u64()).unwrap_or(0);
                rep.viol_count += j.get("viol_count").and_then(|x| x.as_u64()).unwrap_or(0);
                if let Some(vs) = j.get("viols").and_then(|v| v.as_arr()) {
                    for v in vs {
                        if let Ok(v) = Violation::from_json(v) {
                            rep.push_violation(v);
                        }
                    }
                }
            }
            Ok(s) if s.code() == Some(1) => std::process::exit(1),
            _ => monitor::machinery_fail("a cold-start probe process failed"),
        }
    }
    rep.extra.push(("cold_start_probe".into(), Json::obj().with("fresh_processes", Json::U(rounds as u64)).with("threads_per_process", Json::U(16)).with("first_calls_checked", Json::U(probes)).with("note", Json::s("schedule SAMPLE, not exhaustive and not part of the deciding enumeration: threads released from a barrier make their first calls into the crate at the same time"))));
}

/// Cold repetition probe: one fresh single-threaded process per item, in which the item is judged `reps` times in a
/// row - whatever the call count at which process-wide state changes (a table filled block by block, a counter, a
/// warm-up threshold), the call made at that moment is about this item. Deterministic; depth = `reps` calls of ONE item.
pub fn cold_repeat_probe(ctx: &Ctx, rep: &mut Report, n_items: usize, reps: usize) {
    let exe = std::env::current_exe().unwrap_or_else(|_| monitor::machinery_fail("cannot locate the harness binary"));
    let t0 = std::time::Instant::now();
    let mut acc = crate::engine::evidence::Acc::new(1);
    let mut kids = Vec::new();
    for i in 0..n_items {
        let out = std::env::temp_dir().join(format!("ckc-mc-rep-{}-{}-{}.json", ctx.id, std::process::id(), i));
        let child = std::process::Command::new(&exe)
            .args(["run", &ctx.id, ctx.tier.name(), "--child", out.to_str().unwrap(), "--probe"])
            .env("CKC_MC_QUIET", "1")
            .env("CKC_MC_PROBE_ITEM", i.to_string())
            .env("CKC_MC_PROBE_REPS", reps.to_string())
            .spawn()
            .unwrap_or_else(|_| monitor::machinery_fail("cannot spawn a repetition probe"));
        kids.push((child, out));
        if kids.len() >= 16 {
            collect_probe(&mut kids, rep, &mut acc);
        }
    }
    collect_probe(&mut kids, rep, &mut acc);
    rep.add_space(&format!("cold repetition: {} representative cases, each judged {} times in a row in its own fresh single-threaded process", n_items, reps), &acc, t0, "call-count dependent process-wide state (progressively filled tables, warm-up thresholds)");
}
fn collect_probe(kids: &mut Vec<(std::process::Child, std::path::PathBuf)>, rep: &mut Report, acc: &mut crate::engine::evidence::Acc) {
    for (mut child, out) in kids.drain(..) {
        match child.wait() {
            Ok(s) if s.success() => {
                let text = std::fs::read_to_string(&out).unwrap_or_else(|_| monitor::machinery_fail("repetition probe report missing"));
                let _ = std::fs::remove_file(&out);
                let j = Json::parse(&text).unwrap_or_else(|e| monitor::machinery_fail(&format!("repetition probe report unreadable: {}", e)));
                acc.cases += j.get("evaluations").and_then(|x| x.as_u64()).unwrap_or(0);
                acc.calls += j.get("evaluations").and_then(|x| x.as_u64()).unwrap_or(0);
                acc.nontrivial += 1;
                if let Some(vs) = j.get("viols").and_then(|v| v.as_arr()) {
                    for v in vs {
                        if let Ok(v) = Violation::from_json(v) {
                            rep.violate(v);
                        }
                    }
                }
            }
            Ok(s) if s.code() == Some(1) => std::process::exit(1),
            _ => monitor::machinery_fail("a repetition probe process failed"),
        }
    }
}
/// Child side: Some((item index, repetitions)) when this process is a repetition probe.
pub fn repeat_probe_request() -> Option<(usize, usize)> {
    let i = std::env::var("CKC_MC_PROBE_ITEM").ok()?.parse().ok()?;
    let r = std::env::var("CKC_MC_PROBE_REPS").ok().and_then(|x| x.parse().ok()).unwrap_or(512);
    Some((i, r))
}
pub fn repeat_probe_body(rep: &mut Report, judge: Judge, item: &Case, reps: usize) {
    for k in 0..reps {
        rep.evaluations += 1;
        if let Verdict::Violated { class, expected, observed } = judge(item) {
            rep.violate(Violation { class: format!("call-count-dependent:{}", class), case: item.clone(), expected, observed: format!("{} [at repetition {} of this case in a fresh process]", observed, k + 1), profile: profile_name().to_string(), trace: vec![format!("the same case judged {} times before", k)] });
            break;
        }
    }
}

/// Body of one probe process: runs `first_call(i)` on 16 threads released together; returns the violations found.
pub fn probe_body(rep: &mut Report, n_items: usize, first_call: &(dyn Fn(usize) -> Option<Violation> + Sync)) {
    let barrier = std::sync::Barrier::new(16);
    let found: std::sync::Mutex<Vec<Violation>> = std::sync::Mutex::new(Vec::new());
    std::thread::scope(|s| {
        for t in 0..16usize {
            let (barrier, found) = (&barrier, &found);
            s.spawn(move || {
                barrier.wait();
                let mut i = t;
                while i < n_items {
                    if let Some(v) = first_call(i) {
                        found.lock().unwrap().push(v);
                    }
                    i += 16;
                }
            });
        }
    });
    rep.evaluations += n_items as u64;
    for v in found.into_inner().unwrap() {
        rep.violate(v);
    }
}

/// A fast-path mismatch that the canonical judge could not reproduce and that could not be attributed to one case
/// kind: recorded and reported at the end of the run as a violation of class `result-not-reproducible`. On a tree of
/// pure functions this is never reached (a mismatch always reproduces); when it is reached the code under test
/// returned a wrong answer at least once, which is a violation whatever the replay does.
pub fn unreproduced(msg: &str) {
    crate::engine::evidence::note_unreproduced(msg);
}

/// Encodes "a then b" as one replayable case: kind "seq|<kind a>|<kind b>", words = [len a, a.., b..], text = a's and
/// b's texts joined by U+001F.
pub fn seq_case(a: &Case, b: &Case) -> Case {
    let mut words = vec![a.words.len() as u64];
    words.extend(a.words.iter());
    words.extend(b.words.iter());
    let text = if a.text.is_some() || b.text.is_some() { Some(format!("{}\u{1f}{}", a.text.clone().unwrap_or_default(), b.text.clone().unwrap_or_default())) } else { None };
    Case { kind: format!("seq|{}|{}", a.kind, b.kind), words, text }
}
pub fn seq_split(c: &Case) -> Option<(Case, Case)> {
    let parts: Vec<&str> = c.kind.splitn(3, '|').collect();
    if parts.len() != 3 || parts[0] != "seq" {
        return None;
    }
    let la = *c.words.first()? as usize;
    if c.words.len() < 1 + la {
        return None;
    }
    let (ta, tb) = match &c.text {
        Some(t) => match t.split_once('\u{1f}') {
            Some((x, y)) => (Some(x.to_string()), Some(y.to_string())),
            None => (Some(t.clone()), None),
        },
        None => (None, None),
    };
    let has_text = |k: &str| k == "token" || k == "hand" || k == "from_index";
    Some((
        Case { kind: parts[1].to_string(), words: c.words[1..1 + la].to_vec(), text: if has_text(parts[1]) { ta } else { None } },
        Case { kind: parts[2].to_string(), words: c.words[1 + la..].to_vec(), text: if has_text(parts[2]) { tb } else { None } },
    ))
}
/// Judges a sequence case: executes a's judge (its calls into the crate), then b's; the verdict is b's.
pub fn judge_seq(judge: Judge, c: &Case) -> Verdict {
    match seq_split(c) {
        None => Verdict::NotJudged("malformed sequence case".into()),
        Some((a, b)) => {
            let _ = judge(&a);
            match judge(&b) {
                Verdict::Violated { class, expected, observed } => Verdict::Violated { class: format!("history:{}", class), expected: format!("{} - also right after the call {}", expected, a.to_json().to_string_compact()), observed },
                v => v,
            }
        }
    }
}

/// Depth-2 call histories through the canonical judge, single-threaded: for every ordered pair (a, b) of `items` the
/// calls of a are executed and then b must hold exactly as it does alone. Catches hidden state (memo, cache keyed by a
/// lossy digest) that input enumeration cannot see by construction.
pub fn history2(rep: &mut Report, judge: Judge, items: &[Case]) {
    let t0 = std::time::Instant::now();
    let kind = monitor::kind_id("history2");
    let accs = crate::engine::enumerate::par_parts(1, |_| {
        let mut acc = crate::engine::evidence::Acc::new(1);
        // the pair pass runs in both logging configurations (Off, then Trace; the overflow-checked profile is always Trace)
        let was = monitor::trace_logging();
        for cfg_trace in [was, true] {
            monitor::set_trace_logging(cfg_trace);
            for a in items {
                for b in items {
                    monitor::beat(kind, &[a.words.first().copied().unwrap_or(0), b.words.first().copied().unwrap_or(0)]);
                    acc.cases += 1;
                    acc.calls += 2;
                    acc.nontrivial += (a != b) as u64;
                    let _ = judge(a);
                    if let Verdict::Violated { .. } = judge(b) {
                        let cfg = if cfg_trace { " [with a Trace-level logger installed]" } else { "" };
                        match confirm(judge, b.clone()) {
                            Some(mut v) => {
                                v.observed.push_str(cfg);
                                acc.violate(v) // b is wrong on its own as well
                            }
                            None => {
                                let sc = seq_case(a, b);
                                let first = judge_seq(judge, &sc);
                                let v = match first {
                                    Verdict::Violated { class, expected, observed } => Violation { class, case: sc, expected, observed: format!("{}{}", observed, cfg), profile: profile_name().to_string(), trace: vec![] },
                                    _ => Violation { class: format!("history:{}:not-reproducible", b.kind), case: sc, expected: "the same answer whenever the same two calls are made".into(), observed: format!("wrong once in sequence, right when the sequence was repeated{}", cfg), profile: profile_name().to_string(), trace: vec![] },
                                };
                                acc.violate(v);
                            }
                        }
                    }
                }
            }
            if was {
                break;
            }
        }
        monitor::set_trace_logging(was);
        // depth 3 over a spread of at most 24 of the items: a two-entry memo needs three calls to go wrong
        let step = (items.len() / 24).max(1);
        let few: Vec<&Case> = items.iter().step_by(step).take(24).collect();
        for a in &few {
            for b in &few {
                for c in &few {
                    acc.cases += 1;
                    acc.calls += 3;
                    acc.nontrivial += 1;
                    let _ = judge(a);
                    let _ = judge(b);
                    if let Verdict::Violated { class, expected, observed } = judge(c) {
                        match confirm(judge, (*c).clone()) {
                            Some(v) => acc.violate(v),
                            None => acc.violate(Violation {
                                class: format!("history3:{}", class),
                                case: seq_case(b, c),
                                expected: format!("{} - also right after the calls {} and {}", expected, a.to_json().to_string_compact(), b.to_json().to_string_compact()),
                                observed,
                                profile: profile_name().to_string(),
                                trace: vec![format!("first call: {}", a.to_json().to_string_compact())],
                            }),
                        }
                    }
                }
            }
        }
        acc
    });
    let acc = crate::engine::evidence::Acc::merged(accs);
    rep.add_space(&format!("histories: every ordered pair of {} representative cases and every ordered triple of {} of them (earlier calls, then the last judged)", items.len(), items.len().min(24)), &acc, t0, "single-threaded depth-2 and depth-3 call sequences through the canonical judge");
}

pub fn sample_json(kind: &str, shown: &str, result: &str) -> Json {
    Json::obj().with("kind", Json::s(kind)).with("input", Json::s(shown)).with("result", Json::s(result))
}

/// xorshift* - only used to rotate which samples / filler cards are shown; never decides a verdict.
pub struct Rot(pub u64);
impl Rot {
    pub fn new(seed: u64) -> Rot {
        Rot(seed.wrapping_mul(0x9E3779B97F4A7C15) | 1)
    }
    pub fn next(&mut self) -> u64 {
        let mut x = self.0;
        x ^= x >> 12;
        x ^= x << 25;
        x ^= x >> 27;
        self.0 = x;
        x.wrapping_mul(0x2545F4914F6CDD1D)
    }
}
