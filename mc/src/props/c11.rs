//! C11 - numeric card order is rank-then-suit; sorting is a descending rearrangement.
//!
//! Spaces: all 52 x 52 card pairs (+ blank below every card); sorting: all tuples of sizes 2..7 over an 8-word
//! alphabet {0, 23, deuce of clubs, a mid card, ace of spades, a pair-flagged card, 2^31, 2^32-1}, which realises
//! EVERY weak ordering of up to 7 slots (the sort is a comparison sort, so its behaviour is determined by the
//! order pattern) with duplicates, blanks and non-card words; thorough adds all tuples over 12 words for sizes
//! <= 6 and all card tuples (52^k) for k <= 4.
//! Oracle: output multiset = input multiset, non-increasing, idempotent, copying form == in-place form.
use super::hands::AnyHand;
use super::{confirm, sample_json, Ctx};
use crate::engine::enumerate::{par_parts, tuple_decode};
#[allow(unused_imports)]
use crate::engine::monitor::beat;
use crate::engine::evidence::{Acc, Case, Report, Verdict};
use crate::engine::monitor::{self, guard};
use crate::oracle::cards::{deck, show_words, sigma53, word_to_card};
use std::time::Instant;

/// Case kinds: "order" [word a, word b] (cards or blank); "<size>.sort" [words].
pub fn judge(case: &Case) -> Verdict {
    let w = case.w32s();
    if case.kind == "order" {
        if w.len() != 2 {
            return Verdict::NotJudged("two words".into());
        }
        let key = |x: u32| -> Option<(i32, i32)> {
            if x == 0 {
                Some((-1, -1))
            } else {
                word_to_card(x).map(|c| (c.rank() as i32, c.suit() as i32))
            }
        };
        return match (key(w[0]), key(w[1])) {
            (Some(a), Some(b)) => {
                let exp = a.cmp(&b);
                let got = w[0].cmp(&w[1]);
                if exp == got {
                    Verdict::Holds
                } else {
                    Verdict::Violated { class: "integer-order-not-rank-then-suit".into(), expected: format!("{:?} for {} vs {}", exp, show_words(&w[..1]), show_words(&w[1..])), observed: format!("{:?}", got) }
                }
            }
            _ => Verdict::NotJudged("order clause is about cards and blank".into()),
        };
    }
    let (size, what) = match case.kind.split_once('.') {
        Some(x) => x,
        None => return Verdict::NotJudged("bad kind".into()),
    };
    if what != "sort" || AnyHand::size_of_name(size) != Some(w.len()) {
        return Verdict::NotJudged("bad kind".into());
    }
    let mut exp = w.clone();
    exp.sort_unstable_by(|a, b| b.cmp(a));
    match guard(|| {
        let h = AnyHand::from_words(&w);
        let s = h.sort();
        (s.to_vec(), h.sort_in_place().to_vec(), s.sort().to_vec(), h.to_vec())
    }) {
        Err(p) => Verdict::Violated { class: format!("panic:{}", case.kind), expected: format!("{:?}", exp), observed: format!("panic: {}", p) },
        Ok((s, ip, ss, orig)) => {
            let mut problems = Vec::new();
            let mut ms = s.clone();
            ms.sort_unstable_by(|a, b| b.cmp(a));
            if ms != exp {
                problems.push("not-a-rearrangement");
            }
            if !s.windows(2).all(|x| x[0] >= x[1]) {
                problems.push("not-descending");
            }
            if ip != s {
                problems.push("in-place-differs");
            }
            if ss != s {
                problems.push("not-idempotent");
            }
            if orig != w {
                problems.push("copying-sort-mutated-input");
            }
            if problems.is_empty() {
                Verdict::Holds
            } else {
                Verdict::Violated { class: format!("{}:{}", case.kind, problems.join("+")), expected: format!("{:?} for input {:?}", exp, w), observed: format!("sort {:?} sort_in_place {:?} sort(sort) {:?}", s, ip, ss) }
            }
        }
    }
}

#[inline]
fn check_sort(acc: &mut Acc, w: &[u32]) {
    let n = w.len();
    acc.cases += 1;
    acc.calls += 3;
    let ok = match guard(|| {
        let h = AnyHand::from_words(w);
        let s = h.sort();
        (s, h.sort_in_place(), s.sort())
    }) {
        Ok((s, ip, ss)) => {
            let mut out = [0u32; 7];
            s.write_to(&mut out[..n]);
            let mut exp = [0u32; 7];
            exp[..n].copy_from_slice(w);
            exp[..n].sort_unstable_by(|a, b| b.cmp(a));
            out[..n] == exp[..n] && ip == s && ss == s
        }
        Err(_) => false,
    };
    let distinct_pattern = (1..n).any(|i| w[i] > w[i - 1]);
    if distinct_pattern {
        acc.nontrivial += 1; // not already non-increasing
    }
    if !ok {
        match confirm(judge, Case::w32(&format!("{}.sort", AnyHand::size_name(n)), w)) {
            Some(v) => acc.violate(v),
            None => super::unreproduced(&format!("C11 sort mismatch on {:?} not reproduced", w)),
        }
    }
}

fn tuples_space(rep: &mut Report, al: &[u32], n: usize, label: &str) {
    let kind = monitor::kind_id("sort");
    let t0 = Instant::now();
    let total = (al.len() as u64).pow(n as u32);
    let nparts = 64.min(total as usize).max(1);
    let accs = par_parts(nparts, |p| {
        let mut acc = Acc::new(1);
        let mut idx = vec![0usize; n];
        let mut w = vec![0u32; n];
        for t in (total * p as u64 / nparts as u64)..(total * (p as u64 + 1) / nparts as u64) {
            tuple_decode(t, al.len() as u64, &mut idx);
            for i in 0..n {
                w[i] = al[idx[i]];
            }
            if t % 4096 == 0 {
                monitor::beat(kind, &[n as u64, t]);
            }
            check_sort(&mut acc, &w);
        }
        acc
    });
    let acc = Acc::merged(accs);
    rep.add_space(&format!("sort: all {}^{} tuples over {}, size {}", al.len(), n, label, n), &acc, t0, "");
}

pub fn run(ctx: &Ctx, rep: &mut Report) {
    let d = deck();
    // order clause
    {
        let t0 = Instant::now();
        let mut acc = Acc::new(1);
        for i in 0..53 {
            for j in 0..53 {
                acc.cases += 1;
                acc.calls += 1;
                if i != j {
                    acc.nontrivial += 1;
                }
                if let Some(v) = confirm(judge, Case::w32("order", &[sigma53(i), sigma53(j)])) {
                    acc.violate(v);
                }
            }
        }
        rep.add_space("integer order of all 53 x 53 pairs over {52 cards, blank}", &acc, t0, "rank first (ace high), then suit S > H > D > C; blank below every card");
    }
    let mid = d[(20 + ctx.seed as usize) % 52].word();
    let mid2 = d[(33 + ctx.seed as usize * 7) % 52].word();
    let al8 = [0u32, 23, d[51].word(), mid, d[0].word(), mid2 | (1 << 29), 0x8000_0000, u32::MAX];
    for n in 2..=7 {
        tuples_space(rep, &al8, n, "the 8-word alphabet");
    }
    rep.sample(sample_json("seven.sort", &show_words(&[al8[3], al8[0], al8[7], al8[2], al8[3], al8[5], al8[4]]), &format!("{:?}", AnyHand::from_words(&[al8[3], al8[0], al8[7], al8[2], al8[3], al8[5], al8[4]]).sort().to_vec())));
    {
        let al12 = [0u32, 1, 23, d[51].word(), d[50].word(), mid, d[13].word(), d[0].word(), mid2 | (1 << 29), d[0].word() | (1 << 30), 0x8000_0000, u32::MAX];
        for n in 2..=6 {
            tuples_space(rep, &al12, n, "the 12-word alphabet");
        }
        let cards: Vec<u32> = d.iter().map(|c| c.word()).collect();
        for n in 2..=(if ctx.tier.thorough() { 4 } else { 3 }) {
            tuples_space(rep, &cards, n, "the 52 cards");
        }
    }
    // bit-neighbour family: two slots hold words that differ in exactly one bit (a comparator that ignores some bit
    // field is a total preorder on most alphabets and wrong only for such pairs)
    {
        let t0 = Instant::now();
        let mut acc = Acc::new(1);
        let bases = [0u32, 23, d[51].word(), mid, d[0].word(), d[13].word(), mid2 | (1 << 29), d[7].word() | (3 << 30), 0x8000_0000, 0x5555_5555, 0x0F0F_F0F0, u32::MAX];
        for n in 2..=7usize {
            for i in 0..n {
                for j in 0..n {
                    if i == j {
                        continue;
                    }
                    for b in bases {
                        for k in 0..32 {
                            let mut w: Vec<u32> = (0..n).map(|s| d[(s * 5 + 9) % 52].word() ^ (s as u32 * 0x0100_0000)).collect();
                            w[i] = b;
                            w[j] = b ^ (1 << k);
                            check_sort(&mut acc, &w);
                        }
                    }
                }
            }
        }
        rep.add_space("sort: every size, every ordered slot pair, 12 base words x every single-bit neighbour", &acc, t0, "pairs of words differing in exactly one of the 32 bits, in every pair of slots");
    }
    if ctx.tier.thorough() {
        // one free slot x all 2^32 words, every size and slot
        let kind = monitor::kind_id("sort-free-slot");
        for n in 2..=7usize {
            for slot in 0..n {
                let t0 = Instant::now();
                let base: Vec<u32> = (0..n).map(|s| d[(s * 9 + 3) % 52].word()).collect();
                let accs = par_parts(1024, |p| {
                    let mut acc = Acc::new(1);
                    let lo = (p as u64) << 22;
                    let mut w = base.clone();
                    monitor::beat(kind, &[n as u64, slot as u64, lo]);
                    for x in lo..lo + (1 << 22) {
                        w[slot] = x as u32;
                        check_sort(&mut acc, &w);
                    }
                    acc
                });
                let acc = Acc::merged(accs);
                rep.add_space(&format!("sort: size {} slot {} x all 2^32 words", n, slot), &acc, t0, "one slot takes every 32-bit value, the others hold distinct cards");
            }
        }
    }
    {
        let mut items = Vec::new();
        for n in 2..=7usize {
            for k in 0..6usize {
                let w: Vec<u32> = (0..n).map(|i| al8[(i * (k + 1) + k) % 8]).collect();
                items.push(Case::w32(&format!("{}.sort", AnyHand::size_name(n)), &w));
            }
        }
        super::history2(rep, judge, &items);
    }
    rep.rule = "distinct ordered word arrays; non-trivial = arrays that are not already non-increasing (the sort has to move something)".into();
    rep.bound = if ctx.tier.thorough() {
        "order clause complete; sorting: every weak ordering of <= 7 slots over 8 words, all tuples over 12 words (n <= 6), all card tuples (n <= 4); other word values are covered only through their order pattern".into()
    } else {
        "order clause complete; sorting: every weak ordering of <= 7 slots realised over an 8-word alphabet".into()
    };
    rep.assume("the sort is a comparison sort on the integer order, so its behaviour depends on the words only through their weak-order pattern");
}
