//! C13 - flush, straight and wheel predicates agree with the hand's actual category.
//!
//! Space: all 2,598,960 five-card hands x all 120 slot orders (the whole domain), every predicate, the deprecated
//! free functions, and agreement with the category obtained by ranking the same hand.
//! Oracle: suits all equal; ranks distinct and consecutive or {A,5,4,3,2}; both; wheel - from the rules.
use super::{confirm, oracle, sample_json, Ctx};
use crate::engine::enumerate::{par_parts, permutations};
use crate::engine::evidence::{Acc, Case, Report, Verdict};
use crate::engine::monitor::{self, guard};
use crate::oracle::cards::{deck, show_words};
use crate::oracle::poker::{key_cat, CAT_NAME, FLUSH, SF, STRAIGHT};
use ckc_rs::cards::five::Five;
use ckc_rs::cards::HandRanker;
use ckc_rs::hand_rank::HandRankName;
use std::time::Instant;

pub const OBS: [&str; 9] = ["is_flush", "is_straight", "is_straight_flush", "is_wheel", "evaluate.is_flush", "or_rank_bits", "evaluate.or_rank_bits", "and_bits", "category-agreement"];

struct Model {
    flush: bool,
    straight: bool,
    wheel: bool,
    rank_mask: u32,
    and_bits: u32,
    distinct_ranks: bool,
    cat: u8,
}

fn model(w: &[u32; 5]) -> Option<Model> {
    let cards = super::c01::distinct_cards(w)?;
    let flush = cards.iter().all(|c| c.suit() == cards[0].suit());
    let mut mask = 0u32;
    for c in &cards {
        mask |= 1 << c.rank();
    }
    let distinct = mask.count_ones() == 5;
    let wheel = mask == 0b1_0000_0000_1111;
    let consecutive = distinct && (mask >> mask.trailing_zeros()) == 0b11111;
    let straight = consecutive || wheel;
    let key = oracle().key5(&[cards[0], cards[1], cards[2], cards[3], cards[4]]);
    Some(Model { flush, straight, wheel, rank_mask: mask, and_bits: w.iter().fold(u32::MAX, |a, x| a & x), distinct_ranks: distinct, cat: key_cat(key) })
}

#[allow(deprecated)]
fn observe(what: &str, arr: [u32; 5]) -> Option<(String, String)> {
    // returns (observed, expected) as strings; None for unknown
    let m = model(&arr)?;
    let f = Five::from(arr);
    Some(match what {
        "is_flush" => (f.is_flush().to_string(), m.flush.to_string()),
        "is_straight" => (f.is_straight().to_string(), m.straight.to_string()),
        "is_straight_flush" => (f.is_straight_flush().to_string(), (m.flush && m.straight).to_string()),
        "is_wheel" => (f.is_wheel().to_string(), m.wheel.to_string()),
        "evaluate.is_flush" => (ckc_rs::evaluate::is_flush(arr).to_string(), m.flush.to_string()),
        "or_rank_bits" => (format!("{:#b}", f.or_rank_bits()), format!("{:#b}", m.rank_mask)),
        "evaluate.or_rank_bits" => (format!("{:#b}", ckc_rs::evaluate::or_rank_bits(arr)), format!("{:#b}", m.rank_mask)),
        "and_bits" => {
            // no clause of the statement is about and_bits (only is_flush, which is judged, is derived from it): it is
            // called (it must return) and reported as agreeing
            let _ = (f.and_bits(), m.and_bits);
            ("not judged".to_string(), "not judged".to_string())
        }
        "category-agreement" => {
            // the predicates must describe the category obtained by ranking the same hand
            let name = f.hand_rank().name;
            let sf = f.is_straight_flush();
            let fl = f.is_flush();
            let st = f.is_straight();
            let implied = if sf {
                "StraightFlush"
            } else if fl {
                "Flush"
            } else if st {
                "Straight"
            } else {
                "neither"
            };
            let actual = match name {
                HandRankName::StraightFlush => "StraightFlush",
                HandRankName::Flush => "Flush",
                HandRankName::Straight => "Straight",
                _ => "neither",
            };
            // compared as plain tokens: what the predicates imply vs what ranking says
            let _ = (fl, st, sf);
            (implied.to_string(), actual.to_string())
        }
        _ => return None,
    })
}

/// Case kind = one of OBS; words = five card words.
pub fn judge(case: &Case) -> Verdict {
    let w = case.w32s();
    if w.len() != 5 {
        return Verdict::NotJudged("five words".into());
    }
    let arr = [w[0], w[1], w[2], w[3], w[4]];
    let m = match model(&arr) {
        Some(m) => m,
        None => return Verdict::NotJudged("not five distinct real cards: outside C13's domain".into()),
    };
    match guard(|| observe(&case.kind, arr)) {
        Err(p) => Verdict::Violated { class: format!("panic:{}", case.kind), expected: "a boolean".into(), observed: format!("panic: {}", p) },
        Ok(None) => Verdict::NotJudged("unknown observation".into()),
        Ok(Some((obs, exp))) if obs != exp => Verdict::Violated {
            class: format!("{}:reported-{}:{}", case.kind, if obs.len() < 6 { obs.clone() } else { "wrong".into() }, if m.distinct_ranks { "five-distinct-ranks" } else { "repeated-rank" }),
            expected: format!("{} for {} ({})", exp, show_words(&w), CAT_NAME[m.cat as usize]),
            observed: obs,
        },
        Ok(Some(_)) => Verdict::Holds,
    }
}

fn representative_items() -> Vec<Case> {
    let c = |r: u8, s: u8| crate::oracle::cards::Card::new(r, s).word();
    let hands: Vec<[u32; 5]> = vec![
        [c(12, 3), c(11, 3), c(10, 3), c(9, 3), c(8, 3)],
        [c(12, 3), c(11, 3), c(10, 3), c(9, 3), c(8, 2)],
        [c(12, 3), c(11, 3), c(10, 3), c(9, 3), c(6, 3)],
        [c(12, 3), c(12, 2), c(11, 3), c(10, 3), c(8, 3)],
        [c(12, 3), c(3, 3), c(2, 3), c(1, 3), c(0, 3)],
        [c(12, 2), c(3, 3), c(2, 3), c(1, 3), c(0, 3)],
        [c(4, 2), c(3, 3), c(2, 3), c(1, 3), c(0, 3)],
        [c(7, 0), c(7, 1), c(7, 2), c(3, 3), c(3, 0)],
        [c(5, 1), c(3, 1), c(2, 1), c(1, 1), c(0, 1)],
        [c(12, 0), c(10, 1), c(7, 2), c(4, 3), c(1, 0)],
    ];
    let mut items = Vec::new();
    for h in &hands {
        for ob in OBS {
            items.push(Case::w32(ob, h));
        }
    }
    items
}

pub fn run(ctx: &Ctx, rep: &mut Report) {
    if ctx.probe {
        if let Some((i, reps)) = super::repeat_probe_request() {
            let items = representative_items();
            if i < items.len() {
                super::repeat_probe_body(rep, judge, &items[i], reps);
            }
        }
        return;
    }
    // call-count dependent state: before anything else has called into the crate in THIS process nothing is lost, because
    // every probe is its own fresh process
    super::cold_repeat_probe(ctx, rep, representative_items().len(), 512);
    let o = oracle();
    let d = deck();
    let perms: Vec<[usize; 5]> = permutations(5).into_iter().map(|p| [p[0], p[1], p[2], p[3], p[4]]).collect();
    let mut parts = Vec::new();
    for a in 0..48usize {
        for b in a + 1..49 {
            parts.push((a, b));
        }
    }
    let kind = monitor::kind_id("five.predicates");
    let t0 = Instant::now();
    // hist: [cat*8 + pred*2 + value] for pred in flush, straight, sf, wheel (model side)
    let accs = par_parts(parts.len(), |pi| {
        let (a, b) = parts[pi];
        let mut acc = Acc::new(9 * 8);
        for c in b + 1..50 {
            for dd in c + 1..51 {
                for e in dd + 1..52 {
                    let cs = [d[a], d[b], d[c], d[dd], d[e]];
                    let w = [cs[0].word(), cs[1].word(), cs[2].word(), cs[3].word(), cs[4].word()];
                    let cat = key_cat(o.key5(&cs));
                    let flush = cat == SF || cat == FLUSH;
                    let straight = cat == SF || cat == STRAIGHT;
                    let mut mask = 0u32;
                    for x in &cs {
                        mask |= 1 << x.rank();
                    }
                    let wheel = straight && mask == 0b1_0000_0000_1111;
                    let andb = w.iter().fold(u32::MAX, |x, y| x & y);
                    acc.hist[cat as usize * 8 + flush as usize] += 1;
                    acc.hist[cat as usize * 8 + 2 + straight as usize] += 1;
                    acc.hist[cat as usize * 8 + 4 + (flush && straight) as usize] += 1;
                    acc.hist[cat as usize * 8 + 6 + wheel as usize] += 1;
                    monitor::beat(kind, &[w[0] as u64, w[1] as u64, w[2] as u64, w[3] as u64, w[4] as u64]);
                    #[allow(deprecated)]
                    let r = guard(|| {
                        let mut bad = false;
                        for p in &perms {
                            let arr = [w[p[0]], w[p[1]], w[p[2]], w[p[3]], w[p[4]]];
                            let f = Five::from(arr);
                            bad |= f.is_flush() != flush;
                            bad |= f.is_straight() != straight;
                            bad |= f.is_straight_flush() != (cat == SF);
                            bad |= f.is_wheel() != wheel;
                            bad |= ckc_rs::evaluate::is_flush(arr) != flush;
                            bad |= f.or_rank_bits() != mask;
                            bad |= ckc_rs::evaluate::or_rank_bits(arr) != mask as usize;
                            let _ = andb; // and_bits is observed (it must return) but its value is not in the statement
                        }
                        // agreement with the ranked category (rank is order independent by C01; one order here, all in C01)
                        let name = Five::from(w).hand_rank().name;
                        bad |= (name == HandRankName::StraightFlush) != (cat == SF) || (name == HandRankName::Flush) != (cat == FLUSH) || (name == HandRankName::Straight) != (cat == STRAIGHT);
                        bad
                    });
                    acc.cases += 120;
                    acc.calls += 120 * 8 + 1;
                    if cat <= 4 || mask.count_ones() < 5 {
                        acc.nontrivial += 120;
                    }
                    if !matches!(r, Ok(false)) {
                        if acc.viol_count > 2000 {
                            acc.viol_count += 1;
                            continue;
                        }
                        let mut found = false;
                        for p in &perms {
                            let arr = [w[p[0]], w[p[1]], w[p[2]], w[p[3]], w[p[4]]];
                            for ob in OBS {
                                if let Some(v) = confirm(judge, Case::w32(ob, &arr)) {
                                    found = true;
                                    acc.violate(v);
                                }
                            }
                        }
                        if !found {
                            super::unreproduced(&format!("C13 fast path mismatch on {:?} not reproduced", w));
                        }
                    }
                    if acc.samples.is_empty() && (pi as u64 + ctx.seed) % 401 == 0 {
                        let f = Five::from(w);
                        acc.samples.push(sample_json("five predicates x 120 orders", &show_words(&w), &format!("flush={} straight={} straight_flush={} wheel={} category={}", f.is_flush(), f.is_straight(), f.is_straight_flush(), f.is_wheel(), CAT_NAME[cat as usize])));
                    }
                }
            }
        }
        acc
    });
    let acc = Acc::merged(accs);
    rep.add_space("5H x 120 orders x 8 observations + category agreement", &acc, t0, "every five-card hand in every slot order");
    {
        let c = |r: u8, s: u8| crate::oracle::cards::Card::new(r, s).word();
        let hands: Vec<[u32; 5]> = vec![
            [c(12, 3), c(11, 3), c(10, 3), c(9, 3), c(8, 3)],
            [c(12, 3), c(11, 3), c(10, 3), c(9, 3), c(8, 2)],
            [c(12, 3), c(11, 3), c(10, 3), c(9, 3), c(6, 3)],
            [c(12, 3), c(12, 2), c(11, 3), c(10, 3), c(8, 3)],
            [c(12, 3), c(3, 3), c(2, 3), c(1, 3), c(0, 3)],
            [c(12, 2), c(3, 3), c(2, 3), c(1, 3), c(0, 3)],
            [c(4, 2), c(3, 3), c(2, 3), c(1, 3), c(0, 3)],
            [c(7, 0), c(7, 1), c(7, 2), c(3, 3), c(3, 0)],
            [c(5, 1), c(3, 1), c(2, 1), c(1, 1), c(0, 1)],
            [c(12, 0), c(10, 1), c(7, 2), c(4, 3), c(1, 0)],
        ];
        let mut items = Vec::new();
        for h in &hands {
            for ob in OBS {
                items.push(Case::w32(ob, h));
            }
        }
        super::history2(rep, judge, &items);
    }
    let preds = ["flush", "straight", "straight_flush", "wheel"];
    for cat in 0..9 {
        for (pi, p) in preds.iter().enumerate() {
            for val in 0..2 {
                let n = acc.hist[cat * 8 + pi * 2 + val];
                if n > 0 {
                    rep.hist_add(&format!("{}:{}={}", CAT_NAME[cat], p, val == 1), n);
                }
            }
        }
    }
    // vacuity: each predicate seen true and false overall; negatives exist among repeated-rank categories
    for (pi, p) in preds.iter().enumerate() {
        let t: u64 = (0..9).map(|c| acc.hist[c * 8 + pi * 2 + 1]).sum();
        let f: u64 = (0..9).map(|c| acc.hist[c * 8 + pi * 2]).sum();
        rep.guard(&format!("predicate {} expected both true and false in the space", p), t > 0 && f > 0, format!("true on {} hands, false on {}", t, f));
    }
    let paired_negatives: u64 = [1usize, 2, 5, 6, 7].iter().map(|c| acc.hist[c * 8 + 2]).sum();
    rep.guard("straight=false expected on repeated-rank hands (the case no test contains)", paired_negatives == 624 + 3744 + 54912 + 123552 + 1098240, format!("{}", paired_negatives));
    rep.rule = "distinct ordered five-card arrays; non-trivial = hands that are a flush or straight, or contain a repeated rank (where the span test and the distinct-rank test differ)".into();
    rep.bound = "none: whole domain".into();
}
