//! Size-generic adapter over the crate's Two..Seven containers (real library objects, public API only).
use ckc_rs::cards::five::Five;
use ckc_rs::cards::four::Four;
use ckc_rs::cards::seven::Seven;
use ckc_rs::cards::six::Six;
use ckc_rs::cards::three::Three;
use ckc_rs::cards::two::Two;
use ckc_rs::cards::{HandRanker, HandValidator};
use ckc_rs::Shifty;

#[derive(Clone, Copy, Debug, PartialEq, Eq, Hash)]
pub enum AnyHand {
    H2(Two),
    H3(Three),
    H4(Four),
    H5(Five),
    H6(Six),
    H7(Seven),
}

macro_rules! each {
    ($s:expr, $h:ident => $e:expr) => {
        match $s {
            AnyHand::H2($h) => $e,
            AnyHand::H3($h) => $e,
            AnyHand::H4($h) => $e,
            AnyHand::H5($h) => $e,
            AnyHand::H6($h) => $e,
            AnyHand::H7($h) => $e,
        }
    };
}
macro_rules! map_each {
    ($s:expr, $h:ident => $e:expr) => {
        match $s {
            AnyHand::H2($h) => AnyHand::H2($e),
            AnyHand::H3($h) => AnyHand::H3($e),
            AnyHand::H4($h) => AnyHand::H4($e),
            AnyHand::H5($h) => AnyHand::H5($e),
            AnyHand::H6($h) => AnyHand::H6($e),
            AnyHand::H7($h) => AnyHand::H7($e),
        }
    };
}

impl AnyHand {
    /// constructs through `From<[u32; N]>`
    #[inline]
    pub fn from_words(w: &[u32]) -> AnyHand {
        match w.len() {
            2 => AnyHand::H2(Two::from([w[0], w[1]])),
            3 => AnyHand::H3(Three::from([w[0], w[1], w[2]])),
            4 => AnyHand::H4(Four::from([w[0], w[1], w[2], w[3]])),
            5 => AnyHand::H5(Five::from([w[0], w[1], w[2], w[3], w[4]])),
            6 => AnyHand::H6(Six::from([w[0], w[1], w[2], w[3], w[4], w[5]])),
            7 => AnyHand::H7(Seven::from([w[0], w[1], w[2], w[3], w[4], w[5], w[6]])),
            n => panic!("harness: no hand of size {}", n),
        }
    }
    pub fn size_name(n: usize) -> &'static str {
        ["", "", "two", "three", "four", "five", "six", "seven"][n]
    }
    pub fn size_of_name(s: &str) -> Option<usize> {
        ["", "", "two", "three", "four", "five", "six", "seven"].iter().position(|x| *x == s && !s.is_empty())
    }
    #[inline]
    pub fn to_vec(&self) -> Vec<u32> {
        each!(self, h => h.to_arr().to_vec())
    }
    #[inline]
    pub fn write_to(&self, out: &mut [u32]) {
        each!(self, h => out.copy_from_slice(&h.to_arr()))
    }
    #[inline]
    pub fn is_valid(&self) -> bool {
        each!(self, h => h.is_valid())
    }
    #[inline]
    pub fn is_corrupt(&self) -> bool {
        each!(self, h => h.is_corrupt())
    }
    #[inline]
    pub fn contain_blank(&self) -> bool {
        each!(self, h => h.contain_blank())
    }
    #[inline]
    pub fn are_unique(&self) -> bool {
        each!(self, h => h.are_unique())
    }
    #[inline]
    pub fn iter_vec(&self) -> Vec<u32> {
        each!(self, h => h.iter().copied().collect())
    }
    #[inline]
    pub fn first(&self) -> u32 {
        each!(self, h => h.first())
    }
    #[inline]
    pub fn sort(&self) -> AnyHand {
        map_each!(self, h => h.sort())
    }
    #[inline]
    pub fn sort_in_place(&self) -> AnyHand {
        map_each!(self, h => {
            let mut x = *h;
            x.sort_in_place();
            x
        })
    }
    #[inline]
    pub fn shift_suit(&self) -> AnyHand {
        map_each!(self, h => h.shift_suit())
    }
    /// ranking entry points exist for five, six and seven slots only
    pub fn rank_entry(&self, entry: &str) -> Option<u16> {
        macro_rules! go {
            ($h:expr) => {
                Some(match entry {
                    "hand_rank_value" => $h.hand_rank_value(),
                    "hand_rank.value" => $h.hand_rank().value,
                    "hand_rank_value_and_hand.0" => $h.hand_rank_value_and_hand().0,
                    "hand_rank_value_validated" => $h.hand_rank_value_validated(),
                    "hand_rank_validated.value" => $h.hand_rank_validated().value,
                    _ => return None,
                })
            };
        }
        match self {
            AnyHand::H5(h) => go!(h),
            AnyHand::H6(h) => go!(h),
            AnyHand::H7(h) => go!(h),
            _ => None,
        }
    }
    #[inline]
    pub fn value_validated(&self) -> Option<u16> {
        match self {
            AnyHand::H5(h) => Some(h.hand_rank_value_validated()),
            AnyHand::H6(h) => Some(h.hand_rank_value_validated()),
            AnyHand::H7(h) => Some(h.hand_rank_value_validated()),
            _ => None,
        }
    }
    #[inline]
    pub fn value(&self) -> Option<u16> {
        match self {
            AnyHand::H5(h) => Some(h.hand_rank_value()),
            AnyHand::H6(h) => Some(h.hand_rank_value()),
            AnyHand::H7(h) => Some(h.hand_rank_value()),
            _ => None,
        }
    }
}

pub const RANK_ENTRIES: [&str; 5] = ["hand_rank_value", "hand_rank.value", "hand_rank_value_and_hand.0", "hand_rank_value_validated", "hand_rank_validated.value"];
