//! Size-generic adapter over the crate's Two..Seven containers (real library objects, public API only).
use ckc_rs::cards::five::Five;
use ckc_rs::cards::four::Four;
use ckc_rs::cards::seven::Seven;
use ckc_rs::cards::six::Six;
use ckc_rs::cards::three::Three;
use ckc_rs::cards::two::Two;
use ckc_rs::cards::{HandRanker, HandValidator};
use ckc_rs::Shifty;

#[derive(Clone, Copy, Debug, PartialEq, Eq, Hash)]
pub enum AnyHand {
    H2(Two),
    H3(Three),
    H4(Four),
    H5(Five),
    H6(Six),
    H7(Seven),
}

thread_local! {
    static PLACE: std::cell::Cell<usize> = std::cell::Cell::new(0);
}
/// rotating memory placement for the next container call (see `at_offset` below)
#[inline]
fn next_k() -> usize {
    PLACE.with(|p| {
        let k = p.get();
        p.set(k.wrapping_add(1));
        k
    })
}

// Every method of the adapter copies the inner container to the next of the four 4-byte placements of a 16-byte
// block and calls the REAL method on a reference to that copy, so that every property exercises every placement.
macro_rules! each {
    ($s:expr, $h:ident => $e:expr) => {
        match $s {
            AnyHand::H2(x) => at_offset(next_k(), *x, |$h| $e),
            AnyHand::H3(x) => at_offset(next_k(), *x, |$h| $e),
            AnyHand::H4(x) => at_offset(next_k(), *x, |$h| $e),
            AnyHand::H5(x) => at_offset(next_k(), *x, |$h| $e),
            AnyHand::H6(x) => at_offset(next_k(), *x, |$h| $e),
            AnyHand::H7(x) => at_offset(next_k(), *x, |$h| $e),
        }
    };
}
macro_rules! map_each {
    ($s:expr, $h:ident => $e:expr) => {
        match $s {
            AnyHand::H2(x) => AnyHand::H2(at_offset(next_k(), *x, |$h| $e)),
            AnyHand::H3(x) => AnyHand::H3(at_offset(next_k(), *x, |$h| $e)),
            AnyHand::H4(x) => AnyHand::H4(at_offset(next_k(), *x, |$h| $e)),
            AnyHand::H5(x) => AnyHand::H5(at_offset(next_k(), *x, |$h| $e)),
            AnyHand::H6(x) => AnyHand::H6(at_offset(next_k(), *x, |$h| $e)),
            AnyHand::H7(x) => AnyHand::H7(at_offset(next_k(), *x, |$h| $e)),
        }
    };
}

impl AnyHand {
    /// constructs through `From<[u32; N]>`
    #[inline]
    pub fn from_words(w: &[u32]) -> AnyHand {
        match w.len() {
            2 => AnyHand::H2(Two::from([w[0], w[1]])),
            3 => AnyHand::H3(Three::from([w[0], w[1], w[2]])),
            4 => AnyHand::H4(Four::from([w[0], w[1], w[2], w[3]])),
            5 => AnyHand::H5(Five::from([w[0], w[1], w[2], w[3], w[4]])),
            6 => AnyHand::H6(Six::from([w[0], w[1], w[2], w[3], w[4], w[5]])),
            7 => AnyHand::H7(Seven::from([w[0], w[1], w[2], w[3], w[4], w[5], w[6]])),
            n => panic!("harness: no hand of size {}", n),
        }
    }
    pub fn size_name(n: usize) -> &'static str {
        ["", "", "two", "three", "four", "five", "six", "seven"][n]
    }
    pub fn size_of_name(s: &str) -> Option<usize> {
        ["", "", "two", "three", "four", "five", "six", "seven"].iter().position(|x| *x == s && !s.is_empty())
    }
    #[inline]
    pub fn to_vec(&self) -> Vec<u32> {
        each!(self, h => h.to_arr().to_vec())
    }
    #[inline]
    pub fn write_to(&self, out: &mut [u32]) {
        each!(self, h => out.copy_from_slice(&h.to_arr()))
    }
    #[inline]
    pub fn is_valid(&self) -> bool {
        each!(self, h => h.is_valid())
    }
    #[inline]
    pub fn is_corrupt(&self) -> bool {
        each!(self, h => h.is_corrupt())
    }
    #[inline]
    pub fn contain_blank(&self) -> bool {
        each!(self, h => h.contain_blank())
    }
    #[inline]
    pub fn are_unique(&self) -> bool {
        each!(self, h => h.are_unique())
    }
    #[inline]
    pub fn iter_vec(&self) -> Vec<u32> {
        each!(self, h => h.iter().copied().collect())
    }
    #[inline]
    pub fn first(&self) -> u32 {
        each!(self, h => h.first())
    }
    #[inline]
    pub fn sort(&self) -> AnyHand {
        map_each!(self, h => h.sort())
    }
    #[inline]
    pub fn sort_in_place(&self) -> AnyHand {
        map_each!(self, h => {
            let mut x = *h;
            x.sort_in_place();
            x
        })
    }
    #[inline]
    pub fn shift_suit(&self) -> AnyHand {
        map_each!(self, h => h.shift_suit())
    }
    /// ranking entry points exist for five, six and seven slots only
    pub fn rank_entry(&self, entry: &str) -> Option<u16> {
        macro_rules! go {
            ($h:expr) => {
                Some(match entry {
                    "hand_rank_value" => $h.hand_rank_value(),
                    "hand_rank.value" => $h.hand_rank().value,
                    "hand_rank_value_and_hand.0" => $h.hand_rank_value_and_hand().0,
                    "hand_rank_value_validated" => $h.hand_rank_value_validated(),
                    "hand_rank_validated.value" => $h.hand_rank_validated().value,
                    _ => return None,
                })
            };
        }
        match self {
            AnyHand::H5(x) => at_offset(next_k(), *x, |h| go!(h)),
            AnyHand::H6(x) => at_offset(next_k(), *x, |h| go!(h)),
            AnyHand::H7(x) => at_offset(next_k(), *x, |h| go!(h)),
            _ => None,
        }
    }
    #[inline]
    pub fn value_validated(&self) -> Option<u16> {
        match self {
            AnyHand::H5(x) => Some(at_offset(next_k(), *x, |h| h.hand_rank_value_validated())),
            AnyHand::H6(x) => Some(at_offset(next_k(), *x, |h| h.hand_rank_value_validated())),
            AnyHand::H7(x) => Some(at_offset(next_k(), *x, |h| h.hand_rank_value_validated())),
            _ => None,
        }
    }
    #[inline]
    pub fn value(&self) -> Option<u16> {
        match self {
            AnyHand::H5(x) => Some(at_offset(next_k(), *x, |h| h.hand_rank_value())),
            AnyHand::H6(x) => Some(at_offset(next_k(), *x, |h| h.hand_rank_value())),
            AnyHand::H7(x) => Some(at_offset(next_k(), *x, |h| h.hand_rank_value())),
            _ => None,
        }
    }
}

impl AnyHand {
    /// the n-th slot accessor: first(), second(), ... seventh()
    pub fn get(&self, i: usize) -> u32 {
        match self {
            AnyHand::H2(h) => match i {
                0 => h.first(),
                _ => h.second(),
            },
            AnyHand::H3(h) => match i {
                0 => h.first(),
                1 => h.second(),
                _ => h.third(),
            },
            AnyHand::H4(h) => match i {
                0 => h.first(),
                1 => h.second(),
                2 => h.third(),
                _ => h.forth(),
            },
            AnyHand::H5(h) => match i {
                0 => h.first(),
                1 => h.second(),
                2 => h.third(),
                3 => h.forth(),
                _ => h.fifth(),
            },
            AnyHand::H6(h) => match i {
                0 => h.first(),
                1 => h.second(),
                2 => h.third(),
                3 => h.forth(),
                4 => h.fifth(),
                _ => h.sixth(),
            },
            AnyHand::H7(h) => match i {
                0 => h.first(),
                1 => h.second(),
                2 => h.third(),
                3 => h.forth(),
                4 => h.fifth(),
                5 => h.sixth(),
                _ => h.seventh(),
            },
        }
    }
    /// the n-th slot setter: set_first(), ... set_seventh(); returns the updated container
    pub fn set(&self, i: usize, w: u32) -> AnyHand {
        match *self {
            AnyHand::H2(mut h) => {
                match i {
                    0 => h.set_first(w),
                    _ => h.set_second(w),
                }
                AnyHand::H2(h)
            }
            AnyHand::H3(mut h) => {
                match i {
                    0 => h.set_first(w),
                    1 => h.set_second(w),
                    _ => h.set_third(w),
                }
                AnyHand::H3(h)
            }
            AnyHand::H4(mut h) => {
                match i {
                    0 => h.set_first(w),
                    1 => h.set_second(w),
                    2 => h.set_third(w),
                    _ => h.set_forth(w),
                }
                AnyHand::H4(h)
            }
            AnyHand::H5(mut h) => {
                match i {
                    0 => h.set_first(w),
                    1 => h.set_second(w),
                    2 => h.set_third(w),
                    3 => h.set_forth(w),
                    _ => h.set_fifth(w),
                }
                AnyHand::H5(h)
            }
            AnyHand::H6(mut h) => {
                match i {
                    0 => h.set_first(w),
                    1 => h.set_second(w),
                    2 => h.set_third(w),
                    3 => h.set_forth(w),
                    4 => h.set_fifth(w),
                    _ => h.set_sixth(w),
                }
                AnyHand::H6(h)
            }
            AnyHand::H7(mut h) => {
                match i {
                    0 => h.set_first(w),
                    1 => h.set_second(w),
                    2 => h.set_third(w),
                    3 => h.set_forth(w),
                    4 => h.set_fifth(w),
                    5 => h.set_sixth(w),
                    _ => h.set_seventh(w),
                }
                AnyHand::H7(h)
            }
        }
    }
    pub const SLOT_NAMES: [&'static str; 7] = ["first", "second", "third", "forth", "fifth", "sixth", "seventh"];
    /// every other public way of building the same container from the same words
    pub fn constructor_forms(w: &[u32]) -> Vec<(&'static str, AnyHand)> {
        let mut v = vec![("From<[u32; N]>", AnyHand::from_words(w))];
        match w.len() {
            2 => {
                v.push(("Two::new", AnyHand::H2(Two::new(w[0], w[1]))));
                v.push(("From<&[u32; 2]>", AnyHand::H2(Two::from(&[w[0], w[1]]))));
                let mut d = Two::default();
                d.set_first(w[0]);
                d.set_second(w[1]);
                v.push(("Default + setters", AnyHand::H2(d)));
            }
            3 => {
                v.push(("Three(pub [..])", AnyHand::H3(Three([w[0], w[1], w[2]]))));
            }
            5 => {
                v.push(("Five::new", AnyHand::H5(Five::new(w[0], w[1], w[2], w[3], w[4]))));
            }
            6 => {
                v.push(("Six::from_1_and_2_and_3", AnyHand::H6(Six::from_1_and_2_and_3(w[0], Two::new(w[1], w[2]), Three([w[3], w[4], w[5]])))));
            }
            7 => {
                v.push(("Seven::new(Two, Five)", AnyHand::H7(Seven::new(Two::new(w[0], w[1]), Five::new(w[2], w[3], w[4], w[5], w[6])))));
            }
            _ => {}
        }
        v
    }
    pub fn default_of(n: usize) -> AnyHand {
        match n {
            2 => AnyHand::H2(Two::default()),
            3 => AnyHand::H3(Three::default()),
            4 => AnyHand::H4(Four::default()),
            5 => AnyHand::H5(Five::default()),
            6 => AnyHand::H6(Six::default()),
            _ => AnyHand::H7(Seven::default()),
        }
    }
}

pub const RANK_ENTRIES: [&str; 5] = ["hand_rank_value", "hand_rank.value", "hand_rank_value_and_hand.0", "hand_rank_value_validated", "hand_rank_validated.value"];

// ---------------------------------------------------------------------------------------------------------------------
// Memory placement: the same container at the four possible positions of a 4-byte-aligned object inside a 16-byte
// aligned block (offsets 0, 4, 8, 12). Code that reads the words "two at a time" or with wider loads behaves
// differently at 4 mod 8; a harness that always ranks a fresh local sees only one placement.
#[repr(C, align(16))]
pub struct Placed<T, const K: usize> {
    pad: [u32; K],
    pub h: T,
}

/// Runs `f` on a reference to `value` stored at byte offset 4 * (k mod 4) of a 16-byte aligned block.
#[inline]
pub fn at_offset<T: Copy, R>(k: usize, value: T, f: impl FnOnce(&T) -> R) -> R {
    match k & 3 {
        0 => {
            let p = Placed::<T, 0> { pad: [], h: value };
            f(&std::hint::black_box(&p).h)
        }
        1 => {
            let p = Placed::<T, 1> { pad: [0; 1], h: value };
            f(&std::hint::black_box(&p).h)
        }
        2 => {
            let p = Placed::<T, 2> { pad: [0; 2], h: value };
            f(&std::hint::black_box(&p).h)
        }
        _ => {
            let p = Placed::<T, 3> { pad: [0; 3], h: value };
            f(&std::hint::black_box(&p).h)
        }
    }
}

#[cfg(test)]
mod placement_tests {
    use super::*;
    #[test]
    fn offsets() {
        for k in 0..4 {
            let a = at_offset(k, Seven::default(), |h| h as *const Seven as usize);
            assert_eq!(a % 16, 4 * k);
        }
    }
}
