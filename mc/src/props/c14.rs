//! C14 - bit-set card form and word form are mutually inverse over the 52 cards.
//!
//! Spaces: all 2^32 words through `BinaryCard::from_ckc` (complete); `CKCNumber::from_binary_card` on 0, all 64
//! single bits, every value of population count <= 3 and >= 61, every value of the low 28 bits and of the high 28
//! bits and of the 28-bit windows at offsets 12 and 24, rank-group masks, ALL, OVERFLOW; the 52
//! named bit constants and `BinaryCard::DECK`; round trips both ways.
//! Oracle: card i of the deck <-> bit 51 - i.
use super::consts::{named_bits, rank_groups};
use super::{confirm, sample_json, Ctx};
use crate::engine::enumerate::par_parts;
use crate::engine::evidence::{Acc, Case, Report, Verdict};
use crate::engine::monitor::{self, guard};
use crate::oracle::cards::{deck, show_word, word_to_card, Card};
use ckc_rs::cards::binary_card::{BinaryCard, BC64};
use ckc_rs::{CKCNumber, PokerCard};
use std::time::Instant;

#[inline]
fn model_to_word(b: u64) -> u32 {
    if b.count_ones() == 1 && b >> 52 == 0 {
        Card::from_deck_index(51 - b.trailing_zeros() as usize).word()
    } else {
        0
    }
}
#[inline]
fn model_to_bit(w: u32) -> u64 {
    word_to_card(w).map(|c| c.bit()).unwrap_or(0)
}

/// Case kinds: "from_ckc" [word]; "from_binary_card" [64-bit value]; "named-bit" [index]; "deck-bit" [index].
pub fn judge(case: &Case) -> Verdict {
    let x = case.words.first().copied().unwrap_or(0);
    match case.kind.as_str() {
        "from_ckc" => {
            let w = x as u32;
            let exp = model_to_bit(w);
            match guard(|| {
                let b = BinaryCard::from_ckc(w);
                (b, CKCNumber::from_binary_card(b))
            }) {
                Err(p) => Verdict::Violated { class: "panic:from_ckc".into(), expected: format!("{:#x}", exp), observed: format!("panic: {}", p) },
                Ok((b, _)) if b != exp => Verdict::Violated { class: format!("from_ckc:{}", if exp == 0 { "non-card-gives-bits" } else { "wrong-bit" }), expected: format!("{:#x} for word {:#x} ({})", exp, w, show_word(w)), observed: format!("{:#x}", b) },
                Ok((_, back)) if exp != 0 && back != w => Verdict::Violated { class: "round-trip:word-bit-word".into(), expected: show_word(w), observed: show_word(back) },
                Ok(_) => Verdict::Holds,
            }
        }
        "from_binary_card" => {
            let exp = model_to_word(x);
            match guard(|| {
                let w = CKCNumber::from_binary_card(x);
                (w, BinaryCard::from_ckc(w))
            }) {
                Err(p) => Verdict::Violated { class: "panic:from_binary_card".into(), expected: format!("{:#x}", exp), observed: format!("panic: {}", p) },
                Ok((w, _)) if w != exp => Verdict::Violated {
                    class: format!("from_binary_card:{}", if exp == 0 { "not-one-card-bit-gives-a-card" } else { "wrong-card" }),
                    expected: format!("{} for bit-set {:#x} ({} bits)", show_word(exp), x, x.count_ones()),
                    observed: show_word(w),
                },
                Ok((_, back)) if exp != 0 && back != x => Verdict::Violated { class: "round-trip:bit-word-bit".into(), expected: format!("{:#x}", x), observed: format!("{:#x}", back) },
                Ok(_) => Verdict::Holds,
            }
        }
        "named-bit" => {
            let t = named_bits();
            if x as usize >= t.len() {
                return Verdict::NotJudged("no such constant".into());
            }
            let (name, b, r, s) = t[x as usize];
            let exp = Card::new(r, s).bit();
            if b == exp {
                Verdict::Holds
            } else {
                Verdict::Violated { class: "named-bit:wrong-bit".into(), expected: format!("BinaryCard::{} = bit {}", name, exp.trailing_zeros()), observed: format!("{:#x}", b) }
            }
        }
        "deck-bit" => {
            if x >= 52 {
                return Verdict::NotJudged("0..52".into());
            }
            let b = <BinaryCard as BC64>::DECK[x as usize];
            let exp = 1u64 << (51 - x);
            if b == exp {
                Verdict::Holds
            } else {
                Verdict::Violated { class: "deck-bit:wrong-bit".into(), expected: format!("DECK[{}] = bit {}", x, 51 - x), observed: format!("{:#x}", b) }
            }
        }
        _ => Verdict::NotJudged("unknown kind".into()),
    }
}

fn check_b(acc: &mut Acc, b: u64) {
    acc.cases += 1;
    acc.calls += 1;
    if model_to_word(b) != 0 {
        acc.nontrivial += 1;
    }
    if !matches!(guard(|| CKCNumber::from_binary_card(b)), Ok(w) if w == model_to_word(b)) {
        match confirm(judge, Case::new("from_binary_card", &[b])) {
            Some(v) => acc.violate(v),
            None => super::unreproduced("C14 mismatch not reproduced"),
        }
    }
}

pub fn run(ctx: &Ctx, rep: &mut Report) {
    // word -> bit, all 2^32 words
    {
        let t0 = Instant::now();
        let kind = monitor::kind_id("from_ckc");
        let accs = par_parts(256, |p| {
            let mut acc = Acc::new(1);
            let lo = (p as u64) << 24;
            monitor::beat(kind, &[lo]);
            let mut nbad = 0u64;
            let mut cards = 0u64;
            let r = guard(|| {
                for x in lo..lo + (1 << 24) {
                    let w = x as u32;
                    let e = model_to_bit(w);
                    cards += (e != 0) as u64;
                    if BinaryCard::from_ckc(w) != e {
                        nbad += 1;
                    }
                }
            });
            acc.cases += 1 << 24;
            acc.calls += 1 << 24;
            acc.nontrivial += cards;
            if r.is_err() || nbad > 0 {
                let mut stored = 0;
                for x in lo..lo + (1 << 24) {
                    if stored < 8 {
                        if let Some(v) = confirm(judge, Case::new("from_ckc", &[x])) {
                            acc.violate(v);
                            stored += 1;
                        }
                    }
                }
                if stored == 0 {
                    super::unreproduced("C14 from_ckc mismatch not reproduced");
                }
                acc.viol_count = acc.viol_count.max(nbad);
            }
            acc
        });
        let acc = Acc::merged(accs);
        rep.guard("word sweep met exactly 52 card words", acc.nontrivial == 52, format!("{}", acc.nontrivial));
        rep.add_space("2^32 words through BinaryCard::from_ckc", &acc, t0, "non-cards => empty set, card i => bit 51 - i");
    }
    // constants and round trips
    {
        let t0 = Instant::now();
        let mut acc = Acc::new(1);
        for i in 0..52u64 {
            for k in ["named-bit", "deck-bit"] {
                acc.cases += 1;
                acc.calls += 1;
                acc.nontrivial += 1;
                if let Some(v) = confirm(judge, Case::new(k, &[i])) {
                    acc.violate(v);
                }
            }
            // round trips through the judge (both directions)
            let c = deck()[i as usize];
            for (k, x) in [("from_ckc", c.word() as u64), ("from_binary_card", c.bit())] {
                acc.cases += 1;
                acc.calls += 2;
                acc.nontrivial += 1;
                if let Some(v) = confirm(judge, Case::new(k, &[x])) {
                    acc.violate(v);
                }
            }
        }
        rep.add_space("52 named bit constants, DECK, round trips both ways", &acc, t0, "");
        rep.sample(sample_json("from_ckc / from_binary_card", "A♠ / bit 51", &format!("{:#x} / {}", BinaryCard::from_ckc(deck()[0].word()), show_word(CKCNumber::from_binary_card(1 << 51)))));
    }
    // bit -> word: structured families
    {
        let t0 = Instant::now();
        let mut acc = Acc::new(1);
        check_b(&mut acc, 0);
        for i in 0..64 {
            check_b(&mut acc, 1u64 << i);
            check_b(&mut acc, !(1u64 << i));
            for j in 0..i {
                check_b(&mut acc, 1u64 << i | 1u64 << j);
                check_b(&mut acc, !(1u64 << i | 1u64 << j));
                for k in 0..j {
                    check_b(&mut acc, 1u64 << i | 1u64 << j | 1u64 << k);
                    check_b(&mut acc, !(1u64 << i | 1u64 << j | 1u64 << k));
                }
            }
        }
        for (_, g, _) in rank_groups() {
            check_b(&mut acc, g);
        }
        // the crate's ALL / OVERFLOW / rank-group masks are used as INPUTS only (the statement says nothing about them)
        for b in [<BinaryCard as BC64>::ALL, <BinaryCard as BC64>::OVERFLOW, (1u64 << 52) - 1, !((1u64 << 52) - 1), u64::MAX, (1u64 << 52), (1u64 << 52) | 1] {
            check_b(&mut acc, b);
        }
        rep.add_space("from_binary_card: 0, all values of population count <= 3 and >= 61, group masks, ALL, OVERFLOW", &acc, t0, "");
    }
    {
        let offsets: Vec<u32> = vec![0, 12, 24, 36];
        let _ = ctx;
        for off in offsets {
            let t0 = Instant::now();
            let kind = monitor::kind_id("from_binary_card");
            let accs = par_parts(256, |p| {
                let mut acc = Acc::new(1);
                let lo = (p as u64) << 20;
                monitor::beat(kind, &[lo << off]);
                for x in lo..lo + (1 << 20) {
                    let b = x << off;
                    acc.cases += 1;
                    acc.calls += 1;
                    let e = model_to_word(b);
                    if e != 0 {
                        acc.nontrivial += 1;
                    }
                    if !matches!(guard(|| CKCNumber::from_binary_card(b)), Ok(w) if w == e) {
                        match confirm(judge, Case::new("from_binary_card", &[b])) {
                            Some(v) => acc.violate(v),
                            None => super::unreproduced("C14 window mismatch not reproduced"),
                        }
                    }
                }
                acc
            });
            let acc = Acc::merged(accs);
            rep.add_space(&format!("from_binary_card: every value of the 28-bit window at bit offset {}", off), &acc, t0, "all 2^28 bit patterns inside the window, zero outside");
        }
    }
    {
        let d = deck();
        let mut items = Vec::new();
        for i in (0..52).step_by(3) {
            items.push(Case::new("from_ckc", &[d[i].word() as u64]));
            items.push(Case::new("from_binary_card", &[d[i].bit()]));
        }
        for w in [0u64, 1, 23, d[0].word() as u64 | (1 << 29), (d[0].word() ^ 1) as u64, u32::MAX as u64] {
            items.push(Case::new("from_ckc", &[w]));
        }
        for b in [0u64, 3, 1 << 52, 1 << 63, (1 << 51) | 1, u64::MAX, (1u64 << 52) - 1] {
            items.push(Case::new("from_binary_card", &[b]));
        }
        super::history2(rep, judge, &items);
    }
    // every value whose set bits lie in at most two of the four 13-bit suit blocks: all 2^13 x 2^13 combinations for each
    // of the 10 block pairs (a decode that adds, folds or xors the suit blocks is wrong only for many-bit values)
    {
        let t0 = Instant::now();
        let kind = monitor::kind_id("from_binary_card");
        let mut pairs = Vec::new();
        for a in 0..4u32 {
            for b in a..4u32 {
                pairs.push((a, b));
            }
        }
        let accs = par_parts(pairs.len() * 64, |j| {
            let (a, b) = pairs[j / 64];
            let part = (j % 64) as u64;
            let mut acc = Acc::new(1);
            monitor::beat(kind, &[a as u64, b as u64, part]);
            for x in (part * 128)..((part + 1) * 128) {
                for y in 0..8192u64 {
                    let v = (x << (13 * a)) | (y << (13 * b));
                    acc.cases += 1;
                    acc.calls += 1;
                    let e = model_to_word(v);
                    if e != 0 {
                        acc.nontrivial += 1;
                    }
                    if !matches!(guard(|| CKCNumber::from_binary_card(v)), Ok(w) if w == e) {
                        match confirm(judge, Case::new("from_binary_card", &[v])) {
                            Some(vv) => acc.violate(vv),
                            None => super::unreproduced("C14 suit-block mismatch not reproduced"),
                        }
                    }
                }
            }
            acc
        });
        let acc = Acc::merged(accs);
        rep.add_space("from_binary_card: every value confined to two of the four 13-bit suit blocks (10 block pairs x 2^26)", &acc, t0, "a card of one suit together with any subset of another (or the same) suit");
    }
    let _ = PokerCard::is_blank(&0u32);
    rep.rule = "distinct words / distinct 64-bit values; non-trivial = inputs that denote a real card (must map to exactly that card's other form)".into();
    rep.bound = "word -> bit complete (2^32). bit -> word: all values with <= 3 or >= 61 bits set, all values confined to 28-bit windows, named masks; the remaining 64-bit values are outside (an exact 52-arm match cannot tell them from the explored multi-bit values, but that is an argument, not an enumeration)".into();
}
