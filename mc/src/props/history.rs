//! Depth-2 history exploration for the ranking entry points (used by C01, C02, C03).
//!
//! The properties quantify over inputs, but an implementation with hidden state (a memo of the last hand, a cache
//! keyed by a lossy digest) answers correctly for every input *alone* and wrongly after a particular predecessor.
//! This pass explores call SEQUENCES of length two on the real code, single-threaded (so that a process-wide memo is
//! not disturbed by other workers): for every base hand X of a sub-deck and every "confusable neighbour" Y of X -
//! the hands a lossy cache key is most likely to identify with X - it ranks X then Y and judges Y's answer, and ranks
//! Y then X and judges X's answer, exactly as the single-call oracles would.
//!
//! Neighbours of X (all keep the hand a hand of distinct real cards):
//!   (a) one slot's card moved to each other suit            (same ranks slot for slot, one suit differs)
//!   (b) two slots exchange their suits                      (same multiset of ranks, same suit counts, same word sum)
//!   (c) two slots exchange their cards, (d) rotations       (same set, another slot order)
//!   (e) the whole hand suit-shifted 1..3 times              (same rank pattern, suits relabelled)
//!   (f) one slot's rank moved up / down by one              (near-identical hand)
//! Bases: every n-card hand of the 14-card sub-deck {A,K,Q,J,T,9,8} x {spades, hearts} in canonical order (all
//! flush / straight / pair shapes occur); thorough adds the sub-deck {A,5,4,3,2,K,9} x {spades, hearts, clubs}.
use super::hands::AnyHand;
use super::oracle;
use crate::engine::enumerate::{combos, par_parts};
use crate::engine::evidence::{profile_name, Acc, Case, Report, Verdict, Violation};
use crate::engine::monitor::{self, guard};
use crate::oracle::cards::{show_words, word_to_card, Card};
use ckc_rs::cards::five::Five;
use ckc_rs::cards::HandRanker;
use std::time::Instant;

pub const ENTRIES: [&str; 4] = ["hand_rank_value_and_hand", "hand_rank_value", "hand_rank_value_validated", "hand_rank.value"];

fn neighbours(x: &[u32]) -> Vec<Vec<u32>> {
    let n = x.len();
    let cards: Vec<Card> = x.iter().map(|w| word_to_card(*w).unwrap()).collect();
    let has = |c: Card, v: &[Card]| v.contains(&c);
    let mut out: Vec<Vec<u32>> = Vec::new();
    let push = |v: Vec<Card>, out: &mut Vec<Vec<u32>>| out.push(v.iter().map(|c| c.word()).collect());
    // (a)
    for i in 0..n {
        for s in 0..4u8 {
            let c = Card::new(cards[i].rank(), s);
            if s != cards[i].suit() && !has(c, &cards) {
                let mut v = cards.clone();
                v[i] = c;
                push(v, &mut out);
            }
        }
    }
    // (b)
    for i in 0..n {
        for j in i + 1..n {
            if cards[i].suit() != cards[j].suit() {
                let (a, b) = (Card::new(cards[i].rank(), cards[j].suit()), Card::new(cards[j].rank(), cards[i].suit()));
                let mut v = cards.clone();
                v[i] = a;
                v[j] = b;
                let distinct = (0..n).all(|p| (0..p).all(|q| v[p] != v[q]));
                if distinct {
                    push(v, &mut out);
                }
            }
        }
    }
    // (c)
    for i in 0..n {
        for j in i + 1..n {
            let mut v = cards.clone();
            v.swap(i, j);
            push(v, &mut out);
        }
    }
    // (d)
    for r in 1..n {
        let v: Vec<Card> = (0..n).map(|i| cards[(i + r) % n]).collect();
        push(v, &mut out);
    }
    // (e)
    for k in 1..4u8 {
        let v: Vec<Card> = cards.iter().map(|c| Card::new(c.rank(), (c.suit() + k) % 4)).collect();
        push(v, &mut out);
    }
    // (f)
    for i in 0..n {
        for d in [-1i8, 1] {
            let r = cards[i].rank() as i8 + d;
            if (0..13).contains(&r) {
                let c = Card::new(r as u8, cards[i].suit());
                if !has(c, &cards) {
                    let mut v = cards.clone();
                    v[i] = c;
                    push(v, &mut out);
                }
            }
        }
    }
    out
}

/// One call through `entry`; returns (value, witness if the entry reports one).
fn call(entry: &str, w: &[u32]) -> Option<(u16, Option<[u32; 5]>)> {
    let h = AnyHand::from_words(w);
    Some(match entry {
        "hand_rank_value_and_hand" => match h {
            AnyHand::H5(x) => {
                let (v, f) = x.hand_rank_value_and_hand();
                (v, Some(f.to_arr()))
            }
            AnyHand::H6(x) => {
                let (v, f) = x.hand_rank_value_and_hand();
                (v, Some(f.to_arr()))
            }
            AnyHand::H7(x) => {
                let (v, f) = x.hand_rank_value_and_hand();
                (v, Some(f.to_arr()))
            }
            _ => return None,
        },
        "hand_rank_value" | "hand_rank_value_validated" | "hand_rank.value" => (h.rank_entry(entry)?, None),
        "evaluate.five_cards" if w.len() == 5 => (ckc_rs::evaluate::five_cards([w[0], w[1], w[2], w[3], w[4]]), None),
        _ => return None,
    })
}

/// Is the answer for hand `w` right? (value = rule-derived best-of-n; witness conditions of C03)
fn answer_ok(w: &[u32], ans: &(u16, Option<[u32; 5]>), check_value: bool, check_witness: bool) -> Result<(), String> {
    let cards: Vec<Card> = w.iter().map(|x| word_to_card(*x).unwrap()).collect();
    let exp = oracle().best_by_rules(&cards);
    if check_value && ans.0 != exp {
        return Err(format!("value {} instead of {}", ans.0, exp));
    }
    if check_witness {
        if let Some(h) = ans.1 {
            if w.len() == 5 {
                if h[..] != w[..] {
                    return Err(format!("five-card witness [{}] is not the input", show_words(&h)));
                }
            } else {
                if !h.windows(2).all(|p| p[0] > p[1]) || !h.iter().all(|c| w.contains(c)) {
                    return Err(format!("witness [{}] is not five descending input cards", show_words(&h)));
                }
                match guard(|| Five::from(h).hand_rank_value()) {
                    Ok(v) if v == ans.0 => {}
                    other => return Err(format!("witness [{}] ranks {:?}, reported value {}", show_words(&h), other, ans.0)),
                }
            }
        }
    }
    Ok(())
}

/// Case kind "history.<value|witness>.<entry>": words = first hand then second hand (equal sizes).
pub fn judge(case: &Case) -> Verdict {
    let parts: Vec<&str> = case.kind.splitn(3, '.').collect();
    if parts.len() != 3 || parts[0] != "history" {
        return Verdict::NotJudged("not a history case".into());
    }
    let (check_value, check_witness) = (parts[1] == "value", parts[1] == "witness");
    let entry = parts[2];
    let w = case.w32s();
    if w.len() % 2 != 0 || !(5..=7).contains(&(w.len() / 2)) {
        return Verdict::NotJudged("two hands of equal size 5..7".into());
    }
    let n = w.len() / 2;
    let (x, y) = (&w[..n], &w[n..]);
    if super::c01::distinct_cards(x).is_none() || super::c01::distinct_cards(y).is_none() {
        return Verdict::NotJudged("not distinct real cards".into());
    }
    match guard(|| (call(entry, x), call(entry, y))) {
        Err(p) => Verdict::Violated { class: format!("panic:{}", case.kind), expected: "two answers".into(), observed: format!("panic: {}", p) },
        Ok((Some(ax), Some(ay))) => {
            if let Err(e) = answer_ok(x, &ax, check_value, check_witness) {
                return Verdict::Violated { class: format!("{}:first-call-wrong", case.kind), expected: format!("the right answer for [{}]", show_words(x)), observed: e };
            }
            match answer_ok(y, &ay, check_value, check_witness) {
                Ok(()) => Verdict::Holds,
                Err(e) => Verdict::Violated {
                    class: format!("{}:answer-depends-on-the-previous-call", case.kind),
                    expected: format!("the right answer for [{}] also when [{}] was ranked just before", show_words(y), show_words(x)),
                    observed: e,
                },
            }
        }
        Ok(_) => Verdict::NotJudged("unknown entry".into()),
    }
}

fn sub_deck(ranks: &[u8], suits: &[u8]) -> Vec<Card> {
    let mut v = Vec::new();
    for s in suits.iter().rev() {
        for r in ranks {
            v.push(Card::new(*r, *s));
        }
    }
    v
}

/// Runs the pass for hand size `n`; `witness` selects C03's conditions instead of C02/C01's value oracle.
pub fn space(rep: &mut Report, n: usize, witness: bool, thorough: bool) {
    let mode = if witness { "witness" } else { "value" };
    let mut entries: Vec<&str> = if witness { vec!["hand_rank_value_and_hand"] } else { ENTRIES.to_vec() };
    if !witness && n == 5 {
        entries.push("evaluate.five_cards");
    }
    let mut decks = vec![sub_deck(&[12, 11, 10, 9, 8, 7, 6], &[3, 2])];
    if thorough {
        decks.push(sub_deck(&[12, 3, 2, 1, 0, 11, 7], &[3, 2, 0]));
    }
    for (di, deck) in decks.iter().enumerate() {
        let t0 = Instant::now();
        let kind = monitor::kind_id(&format!("history.{}", mode));
        let bases: Vec<Vec<u32>> = combos(deck.len(), n).into_iter().map(|c| c.iter().map(|i| deck[*i].word()).collect()).collect();
        // single worker: the sequence X, Y must not be interleaved with other calls into the crate
        let accs = par_parts(1, |_| {
            let mut acc = Acc::new(2);
            for x in &bases {
                let ns = neighbours(x);
                for e in &entries {
                    for y in &ns {
                        for (a, b) in [(x, y), (y, x)] {
                            let mut w64: Vec<u64> = a.iter().map(|v| *v as u64).collect();
                            w64.extend(b.iter().map(|v| *v as u64));
                            monitor::beat(kind, &w64[..w64.len().min(monitor::CASE_WORDS)]);
                            acc.cases += 1;
                            acc.calls += 2;
                            let r = guard(|| (call(e, a), call(e, b)));
                            let ok = match &r {
                                Ok((Some(ra), Some(rb))) => answer_ok(a, ra, !witness, witness).is_ok() && answer_ok(b, rb, !witness, witness).is_ok(),
                                _ => false,
                            };
                            let different_value = oracle().best_by_rules(&a.iter().map(|v| word_to_card(*v).unwrap()).collect::<Vec<_>>()) != oracle().best_by_rules(&b.iter().map(|v| word_to_card(*v).unwrap()).collect::<Vec<_>>());
                            if different_value {
                                acc.nontrivial += 1;
                            }
                            if !ok {
                                let mut words: Vec<u32> = a.clone();
                                words.extend(b.iter());
                                let case = Case::w32(&format!("history.{}.{}", mode, e), &words);
                                match super::confirm(judge, case.clone()) {
                                    Some(v) => acc.violate(v),
                                    None => acc.violate(Violation {
                                        class: format!("history.{}.{}:not-reproducible", mode, e),
                                        case,
                                        expected: "the same answer whenever the same two calls are made".into(),
                                        observed: "the sequence gave a wrong answer once and a right one when repeated: the result depends on more than the last two calls".into(),
                                        profile: profile_name().into(),
                                        trace: vec![],
                                    }),
                                }
                            }
                        }
                    }
                }
            }
            acc
        });
        let acc = Acc::merged(accs);
        rep.add_space(
            &format!("histories of two calls: {} base {}-card hands of sub-deck {} x confusable neighbours x both directions x {} entry point(s)", bases.len(), n, di + 1, entries.len()),
            &acc,
            t0,
            "X then Y and Y then X, single-threaded; neighbours = one-slot suit change, two-slot suit exchange, slot swaps, rotations, suit shifts, one-slot rank step",
        );
    }
}

// ---------------------------------------------------------------------------------------------------------------------
// Sharded pair histories: ALL ordered pairs inside alphabets of hands that differ "in suits only" or "in ranks only".
// A cheap digest of a hand (sum / xor / or of the words, the rank pattern, the prime product, a truncated key ...)
// confuses exactly such hands. Each shard is its own single-threaded process (see props::spawn_shards).

fn suitings(ranks: &[u8], suits: &[u8]) -> Vec<Vec<u32>> {
    // every assignment of `suits` to the given ranks that yields distinct cards
    let n = ranks.len();
    let k = suits.len();
    let mut out = Vec::new();
    let total = (k as u64).pow(n as u32);
    for t in 0..total {
        let mut x = t;
        let mut cs: Vec<Card> = Vec::with_capacity(n);
        for r in ranks {
            cs.push(Card::new(*r, suits[(x % k as u64) as usize]));
            x /= k as u64;
        }
        if (0..n).all(|i| (0..i).all(|j| cs[i] != cs[j])) {
            out.push(cs.iter().map(|c| c.word()).collect());
        }
    }
    out
}

fn rank_sets(n: usize, suit_vec: &[u8]) -> Vec<Vec<u32>> {
    combos(13, n).into_iter().map(|rs| rs.iter().rev().enumerate().map(|(i, r)| Card::new(*r as u8, suit_vec[i]).word()).collect()).collect()
}

/// one representative five-card hand per strength class (7,462 hands)
fn class_representatives() -> Vec<Vec<u32>> {
    let o = oracle();
    let mut reps: Vec<Option<Vec<u32>>> = vec![None; 7463];
    let mut ranks = [0u8; 5];
    for a in 0..13u8 {
        for b in a..13 {
            for c in b..13 {
                for d in c..13 {
                    for e in d..13 {
                        if a == e {
                            continue;
                        }
                        ranks.copy_from_slice(&[a, b, c, d, e]);
                        // non-flush suiting: rotate suits so that equal ranks get different suits
                        let cs: Vec<Card> = (0..5).map(|i| Card::new(ranks[i], (i % 4) as u8)).collect();
                        let v = o.best_by_rules(&cs) as usize;
                        if reps[v].is_none() {
                            reps[v] = Some(cs.iter().map(|c| c.word()).collect());
                        }
                        if a < b && b < c && c < d && d < e {
                            let fs: Vec<Card> = (0..5).map(|i| Card::new(ranks[i], 3)).collect();
                            let fv = o.best_by_rules(&fs) as usize;
                            if reps[fv].is_none() {
                                reps[fv] = Some(fs.iter().map(|c| c.word()).collect());
                            }
                        }
                    }
                }
            }
        }
    }
    reps.into_iter().flatten().collect()
}

pub fn pair_alphabets(n: usize, thorough: bool) -> Vec<(String, Vec<Vec<u32>>)> {
    let mut v = Vec::new();
    match n {
        5 => {
            v.push(("one representative hand per strength class (7,462)".to_string(), class_representatives()));
            for ranks in [vec![11u8, 10, 9, 7, 5], vec![12, 3, 2, 1, 0], vec![12, 11, 10, 9, 8]] {
                v.push((format!("all suitings of the ranks {:?}", ranks), suitings(&ranks, &[0, 1, 2, 3])));
            }
            for ranks in [vec![12u8, 12, 11, 10, 9], vec![12, 12, 11, 11, 10], vec![12, 12, 12, 11, 10], vec![12, 12, 12, 11, 11], vec![12, 12, 12, 12, 11]] {
                v.push((format!("all suitings of the ranks {:?}", ranks), suitings(&ranks, &[0, 1, 2, 3])));
            }
        }
        6 => {
            v.push(("all 1,716 rank sets under the suit vector SSSSHD".to_string(), rank_sets(6, &[3, 3, 3, 3, 2, 1])));
            v.push(("all suitings over three suits of the ranks A K Q J 9 7".to_string(), suitings(&[12, 11, 10, 9, 7, 5], &[3, 2, 1])));
            if thorough {
                v.push(("all suitings over four suits of the ranks A K Q J 9 7".to_string(), suitings(&[12, 11, 10, 9, 7, 5], &[0, 1, 2, 3])));
            }
        }
        _ => {
            v.push(("all 1,716 rank sets under the suit vector SSSSHHD".to_string(), rank_sets(7, &[3, 3, 3, 3, 2, 2, 1])));
            v.push((
                if thorough { "all suitings over three suits of the ranks A K Q J 9 7 3".to_string() } else { "all suitings over two suits of the ranks A K Q J 9 7 3, and over three suits of its first five".to_string() },
                if thorough {
                    suitings(&[12, 11, 10, 9, 7, 5, 1], &[3, 2, 1])
                } else {
                    let mut s = suitings(&[12, 11, 10, 9, 7, 5, 1], &[3, 2]);
                    for five in suitings(&[12, 11, 10, 9, 7], &[3, 2, 1]) {
                        let mut h = five.clone();
                        h.push(Card::new(5, 0).word());
                        h.push(Card::new(1, 0).word());
                        s.push(h);
                    }
                    s
                },
            ));
        }
    }
    v
}

/// Shard k of n of the pair histories for hand size `nc`.
pub fn sharded_pairs(rep: &mut Report, nc: usize, witness: bool, thorough: bool, lean: bool, k: usize, n: usize) {
    let mode = if witness { "witness" } else { "value" };
    let mut entries: Vec<&str> = if witness { vec!["hand_rank_value_and_hand"] } else { vec!["hand_rank_value", "hand_rank_value_validated", "hand_rank_value_and_hand"] };
    if !witness && nc == 5 {
        entries.push("evaluate.five_cards");
    }
    for (name, hands) in pair_alphabets(nc, thorough) {
        if lean && hands.len() > 1100 {
            continue; // lean run (unoptimised crate): the smaller alphabets only
        }
        let t0 = Instant::now();
        let kind = monitor::kind_id(&format!("history.{}", mode));
        let accs = par_parts(1, |_| {
            let mut acc = Acc::new(1);
            // expected values once
            let exp: Vec<u16> = hands.iter().map(|h| oracle().best_by_rules(&h.iter().map(|w| word_to_card(*w).unwrap()).collect::<Vec<_>>())).collect();
            for e in &entries {
                for (xi, x) in hands.iter().enumerate() {
                    if xi % n != k {
                        continue;
                    }
                    monitor::beat(kind, &[xi as u64]);
                    for (yi, y) in hands.iter().enumerate() {
                        acc.cases += 1;
                        acc.calls += 2;
                        acc.nontrivial += (exp[xi] != exp[yi]) as u64;
                        let r = guard(|| (call(e, x), call(e, y)));
                        let ok = match &r {
                            Ok((Some(rx), Some(ry))) => {
                                if witness {
                                    answer_ok(x, rx, false, true).is_ok() && answer_ok(y, ry, false, true).is_ok()
                                } else {
                                    rx.0 == exp[xi] && ry.0 == exp[yi]
                                }
                            }
                            _ => false,
                        };
                        if !ok {
                            let mut words: Vec<u32> = x.clone();
                            words.extend(y.iter());
                            let case = Case::w32(&format!("history.{}.{}", mode, e), &words);
                            match super::confirm(judge, case.clone()) {
                                Some(v) => acc.violate(v),
                                None => acc.violate(Violation { class: format!("history.{}.{}:not-reproducible", mode, e), case, expected: "the same answer whenever the same two calls are made".into(), observed: "wrong once in sequence, right when the sequence was repeated".into(), profile: profile_name().into(), trace: vec![] }),
                            }
                        }
                    }
                }
            }
            acc
        });
        let acc = Acc::merged(accs);
        rep.add_space(&format!("pair histories ({} cards): every ordered pair of {} - {} hands x {} entry point(s), sharded over single-threaded processes", nc, name, hands.len(), entries.len()), &acc, t0, "X ranked, then Y ranked and judged; hands that differ in suits only / in ranks only are what a lossy digest confuses");
    }
}
