//! C05 - ranking never panics on card-or-blank hands; a blank five is Invalid.
//!
//! Runs in BOTH build profiles (release: overflow checks off; relchk: overflow checks + debug assertions on).
//! Spaces
//!   quick:    all 4,187,106 five-slot multisets over S53 = {52 cards, blank} in 5 orders (canonical, reverse, 3
//!             rotations: a blank / duplicate visits every slot) x 5 entry points; all six-slot multisets over a
//!             30-symbol and all seven-slot multisets over a 20-symbol sub-alphabet (x rotations); the public
//!             product-search helper for EVERY key 0..=104,553,158 (largest product + 1) and boundary keys
//!   thorough: all 53^5 ordered five-slot arrays; all 40,475,358 six-slot and all 341,149,446 seven-slot multisets
//!             over S53 with all rotations
//! Oracle: the monitor (normal return, no hang) plus: a five-slot hand containing a blank has value 0, an
//! Invalid rank, through every entry point. Values of blank-free hands with repeated cards are not judged.
use super::hands::AnyHand;
use super::{confirm_mismatch, sample_json, Ctx};
use crate::engine::enumerate::{multisets_first, par_parts, tuple_decode};
use crate::engine::evidence::{Acc, Case, Report, Verdict};
use crate::engine::monitor::{self, guard};
use crate::oracle::cards::{is_card_word, show_words, sigma53, Card};
use ckc_rs::cards::five::Five;
use ckc_rs::cards::seven::Seven;
use ckc_rs::cards::six::Six;
use ckc_rs::cards::HandRanker;
use ckc_rs::hand_rank::{HandRank, HandRankClass, HandRankName};
use std::time::Instant;

pub const MAX_PRODUCT: u64 = 41 * 41 * 41 * 41 * 37; // A A A A K

pub const ENTRIES: [&str; 5] = ["hand_rank_value", "hand_rank", "hand_rank_value_and_hand", "hand_rank_value_validated", "hand_rank_validated"];

/// result of one entry point, normalised: (value, rank-is-invalid-and-consistent)
fn call(entry: &str, w: &[u32]) -> Option<(u16, bool)> {
    fn hr(h: HandRank) -> (u16, bool) {
        (h.value, h.is_invalid() && h.name == HandRankName::Invalid && h.class == HandRankClass::Invalid)
    }
    macro_rules! go {
        ($h:expr) => {
            Some(match entry {
                "hand_rank_value" => ($h.hand_rank_value(), true),
                "hand_rank" => hr($h.hand_rank()),
                "hand_rank_value_and_hand" => ($h.hand_rank_value_and_hand().0, true),
                "hand_rank_value_validated" => ($h.hand_rank_value_validated(), true),
                "hand_rank_validated" => hr($h.hand_rank_validated()),
                _ => return None,
            })
        };
    }
    match w.len() {
        5 => go!(Five::from([w[0], w[1], w[2], w[3], w[4]])),
        6 => go!(Six::from([w[0], w[1], w[2], w[3], w[4], w[5]])),
        7 => go!(Seven::from([w[0], w[1], w[2], w[3], w[4], w[5], w[6]])),
        _ => None,
    }
}

fn shape(w: &[u32]) -> &'static str {
    let blank = w.contains(&0);
    let dup = (0..w.len()).any(|i| w[i] != 0 && (0..i).any(|j| w[i] == w[j]));
    match (blank, dup) {
        (true, _) => "with-blank",
        (false, true) => "repeated-card",
        (false, false) => "distinct-cards",
    }
}

/// Case kinds: "<five|six|seven>.<entry>" with card-or-blank words, and "find_in_products" with one key.
pub fn judge(case: &Case) -> Verdict {
    if case.kind == "find_in_products" {
        let key = match case.words.first() {
            Some(k) if *k <= usize::MAX as u64 => *k as usize,
            _ => return Verdict::NotJudged("no key".into()),
        };
        return match guard(|| Five::find_in_products(key)) {
            Err(p) => Verdict::Violated {
                class: format!("panic:find_in_products:{}", if key < 48 { "key-below-smallest-product" } else if key as u64 > MAX_PRODUCT { "key-above-largest-product" } else { "key-in-range" }),
                expected: format!("normal return for key {}", key),
                observed: format!("panic: {}", p),
            },
            Ok(_) => Verdict::Holds,
        };
    }
    let w = case.w32s();
    let (size, entry) = match case.kind.split_once('.') {
        Some(x) => x,
        None => return Verdict::NotJudged("bad kind".into()),
    };
    let n = match AnyHand::size_of_name(size) {
        Some(n) if n == w.len() && n >= 5 => n,
        _ => return Verdict::NotJudged("size/word count mismatch".into()),
    };
    if !w.iter().all(|x| *x == 0 || is_card_word(*x)) {
        return Verdict::NotJudged("a slot holds neither a real card nor blank: outside C05's domain".into());
    }
    let validated = entry.contains("validated");
    match guard(|| call(entry, &w)) {
        Err(p) => Verdict::Violated {
            class: format!("panic:{}-slot:{}:{}", size, shape(&w), if validated { "validated" } else { "unvalidated" }),
            expected: format!("normal return of {} on [{}]", case.kind, show_words(&w)),
            observed: format!("panic: {}", p),
        },
        Ok(None) => Verdict::NotJudged("unknown entry".into()),
        Ok(Some((v, inv))) => {
            if n == 5 && w.contains(&0) && (v != 0 || !inv) {
                Verdict::Violated {
                    class: format!("real-rank-for-blank-five:{}", if validated { "validated" } else { "unvalidated" }),
                    expected: format!("value 0 and an Invalid rank for [{}]", show_words(&w)),
                    observed: format!("value {} ({:?}), invalid-and-consistent={}", v, HandRank::from(v).class, inv),
                }
            } else {
                Verdict::Holds
            }
        }
    }
}

const H_BLANKS: usize = 0; // 0..=7 blanks
const H_DUP: usize = 8;
const H_FLUSH: usize = 9;
const H_UNIQUE5: usize = 10;
const H_PRODUCT: usize = 11;
const H_NT: usize = 12; // bases containing a blank or a repeated card
const H_LEN: usize = 13;

fn classify_path(acc: &mut Acc, w: &[u32]) {
    let blanks = w.iter().filter(|x| **x == 0).count();
    acc.hist[H_BLANKS + blanks] += 1;
    let dup = (0..w.len()).any(|i| w[i] != 0 && (0..i).any(|j| w[i] == w[j]));
    if dup {
        acc.hist[H_DUP] += 1;
    }
    if dup || blanks > 0 {
        acc.hist[H_NT] += 1;
    }
    if w.len() == 5 {
        // which evaluation path the input exercises, classified from the input (not by instrumenting the crate)
        let same_suit = blanks == 0 && w.iter().all(|x| (x >> 12) & 15 == (w[0] >> 12) & 15);
        let ranks: u32 = w.iter().fold(0, |m, x| m | (x >> 16));
        if same_suit {
            acc.hist[H_FLUSH] += 1;
        } else if ranks.count_ones() == 5 {
            acc.hist[H_UNIQUE5] += 1;
        } else {
            acc.hist[H_PRODUCT] += 1;
        }
    }
}

/// fast path for one ordered array; returns false when something needs the slow path
#[inline]
fn fast(w: &[u32], entries: usize) -> bool {
    let need_zero = w.len() == 5 && w.contains(&0);
    for e in ENTRIES.iter().take(entries) {
        match call(e, w) {
            Some((v, inv)) => {
                if need_zero && (v != 0 || !inv) {
                    return false;
                }
            }
            None => return false,
        }
    }
    true
}

fn check_orders(acc: &mut Acc, kind: usize, base: &[u32], orders: &[Vec<usize>], entries: usize) {
    let n = base.len();
    let mut w = vec![0u32; n];
    let mut w64 = [0u64; 7];
    classify_path(acc, base);
    for ord in orders {
        for i in 0..n {
            w[ord[i]] = base[i];
            w64[ord[i]] = base[i] as u64;
        }
        monitor::beat(kind, &w64[..n]);
        acc.cases += 1;
        acc.calls += entries as u64;
        if !matches!(guard(|| fast(&w, entries)), Ok(true)) {
            let size = AnyHand::size_name(n);
            let mut found = false;
            for e in ENTRIES.iter().take(entries) {
                if let Some(v) = super::confirm(judge, Case::w32(&format!("{}.{}", size, e), &w)) {
                    found = true;
                    acc.violate(v);
                }
            }
            if !found {
                super::unreproduced(&format!("C05 fast path problem on {:?} not reproduced by the judge", w));
            }
        }
    }
}

fn rotations(n: usize) -> Vec<Vec<usize>> {
    (0..n).map(|b| (0..n).map(|x| (x + b) % n).collect()).collect()
}

fn sub_alphabet(k: usize) -> Vec<u32> {
    // blank first, then cards chosen to contain suited runs, pairs, trips, quads and wheels
    let c = |r: u8, s: u8| Card::new(r, s).word();
    let list = [
        0,
        c(12, 3), c(11, 3), c(10, 3), c(9, 3), c(8, 3), c(7, 3), // A K Q J T 9 of spades
        c(12, 2), c(11, 2), c(12, 1), c(12, 0), // more aces and a king
        c(3, 0), c(2, 0), c(1, 0), c(0, 0), // 5 4 3 2 of clubs
        c(0, 1), c(0, 2), c(5, 1), c(6, 2), c(7, 0),
        c(11, 1), c(11, 0), c(10, 2), c(9, 2), c(8, 1), c(4, 3), c(3, 3), c(2, 3), c(1, 3), c(0, 3),
    ];
    list[..k].to_vec()
}

pub fn run(ctx: &Ctx, rep: &mut Report) {
    let thorough = ctx.tier.thorough();
    let kind5 = monitor::kind_id("five.*");

    // (1) five slots
    if !thorough {
        let t0 = Instant::now();
        let mut orders = vec![(0..5).collect::<Vec<usize>>(), (0..5).rev().collect()];
        for b in [1usize, 2, 3] {
            orders.push((0..5).map(|x| (x + b) % 5).collect());
        }
        let accs = par_parts(53, |first| {
            let mut acc = Acc::new(H_LEN);
            multisets_first(53, 5, first, &mut |idx| {
                let base = [sigma53(idx[0]), sigma53(idx[1]), sigma53(idx[2]), sigma53(idx[3]), sigma53(idx[4])];
                check_orders(&mut acc, kind5, &base, &orders, 5);
            });
            acc
        });
        let mut acc = Acc::merged(accs);
        acc.nontrivial = 5 * acc.hist[H_NT];
        hist_out(rep, "five-slot multisets:", &acc);
        rep.guard("five-slot multisets: 4,187,106 multisets, every blank count 0..=5 present", acc.hist[H_BLANKS..H_BLANKS + 6].iter().sum::<u64>() == 4_187_106 && (0..6).all(|b| acc.hist[H_BLANKS + b] > 0), format!("{:?}", &acc.hist[..6]));
        rep.guard("five-slot multisets: flush / five-distinct-ranks / product-search inputs all present", acc.hist[H_FLUSH] > 0 && acc.hist[H_UNIQUE5] > 0 && acc.hist[H_PRODUCT] > 0, format!("{:?}", &acc.hist[H_FLUSH..H_NT]));
        rep.add_space("five-slot multisets over S53 x 5 orders x 5 entry points", &acc, t0, "all 4,187,106 multisets of {52 cards, blank}; canonical, reverse and three rotations");
    } else {
        let t0 = Instant::now();
        let total = 53u64.pow(5);
        let nparts = 53 * 53;
        let ident = vec![(0..5).collect::<Vec<usize>>()];
        let accs = par_parts(nparts, |p| {
            let mut acc = Acc::new(H_LEN);
            let lo = total * p as u64 / nparts as u64;
            let hi = total * (p as u64 + 1) / nparts as u64;
            let mut idx = [0usize; 5];
            for t in lo..hi {
                tuple_decode(t, 53, &mut idx);
                let base = [sigma53(idx[0]), sigma53(idx[1]), sigma53(idx[2]), sigma53(idx[3]), sigma53(idx[4])];
                check_orders(&mut acc, kind5, &base, &ident, 5);
            }
            acc
        });
        let mut acc = Acc::merged(accs);
        acc.nontrivial = acc.hist[H_NT];
        hist_out(rep, "five-slot arrays:", &acc);
        rep.guard("five-slot arrays: 53^5 arrays", acc.cases == total, format!("{}", acc.cases));
        rep.add_space("all 53^5 ordered five-slot arrays x 5 entry points", &acc, t0, "the complete five-slot domain of the property");
    }

    // (2) six and seven slots
    for n in [6usize, 7] {
        let t0 = Instant::now();
        let kind = monitor::kind_id(&format!("{}.*", AnyHand::size_name(n)));
        let rots = rotations(n);
        let (alpha, name): (Vec<u32>, String) = if thorough {
            ((0..53).map(|i| sigma53((i + 52) % 53)).collect(), format!("all {}-slot multisets over S53 x {} rotations x 5 entry points", n, n))
        } else {
            let k = if n == 6 { 30 } else { 20 };
            (sub_alphabet(k), format!("{}-slot multisets over a {}-symbol sub-alphabet x {} rotations x 5 entry points", n, k, n))
        };
        let m = alpha.len();
        // partition by the first two elements for balance
        let mut parts = Vec::new();
        for a in 0..m {
            for b in a..m {
                parts.push((a, b));
            }
        }
        let accs = par_parts(parts.len(), |p| {
            let (a, b) = parts[p];
            let mut acc = Acc::new(H_LEN);
            let mut idx = vec![0usize; n];
            idx[0] = a;
            idx[1] = b;
            fn rec(pos: usize, n: usize, m: usize, idx: &mut Vec<usize>, f: &mut dyn FnMut(&[usize])) {
                if pos == n {
                    f(idx);
                    return;
                }
                for v in idx[pos - 1]..m {
                    idx[pos] = v;
                    rec(pos + 1, n, m, idx, f);
                }
            }
            let mut base = vec![0u32; n];
            rec(2, n, m, &mut idx, &mut |ix| {
                for i in 0..n {
                    base[i] = alpha[ix[i]];
                }
                check_orders(&mut acc, kind, &base, &rots, 5);
            });
            acc
        });
        let mut acc = Acc::merged(accs);
        acc.nontrivial = n as u64 * acc.hist[H_NT];
        hist_out(rep, &format!("{}-slot multisets:", n), &acc);
        let expect = crate::engine::enumerate::choose((m + n - 1) as u64, n as u64);
        rep.guard(&format!("{}-slot multisets: count equals C({}+{}-1,{})", n, m, n, n), acc.hist[H_BLANKS..H_BLANKS + 8].iter().sum::<u64>() == expect, format!("{} vs {}", acc.hist[H_BLANKS..H_BLANKS + 8].iter().sum::<u64>(), expect));
        rep.guard(&format!("{}-slot multisets: every blank count 0..={} present", n, n), (0..=n).all(|b| acc.hist[H_BLANKS + b] > 0), format!("{:?}", &acc.hist[..8]));
        rep.add_space(&name, &acc, t0, "with repetition; every rotation so that a blank / repeated card visits every slot");
    }

    // (2b) every slot order of a handful of base hands (distinct cards; one, two and three blanks; a repeated card)
    for n in [5usize, 6, 7] {
        let t0 = Instant::now();
        let kind = monitor::kind_id(&format!("{}.*", AnyHand::size_name(n)));
        let orders = crate::engine::enumerate::permutations(n);
        let al = sub_alphabet(20);
        let mut bases: Vec<Vec<u32>> = Vec::new();
        for shift in 0..4usize {
            let cards: Vec<u32> = (0..n).map(|i| al[1 + (i * 3 + shift * 5) % 19]).collect();
            bases.push(cards.clone());
            for blanks in 1..=3usize {
                let mut b = cards.clone();
                for k in 0..blanks {
                    b[(k * 2 + shift) % n] = 0;
                }
                bases.push(b);
            }
            let mut dup = cards.clone();
            dup[n - 1] = dup[0];
            bases.push(dup);
        }
        let accs = par_parts(bases.len(), |bi| {
            let mut acc = Acc::new(H_LEN);
            check_orders(&mut acc, kind, &bases[bi], &orders, 5);
            acc
        });
        let mut acc = Acc::merged(accs);
        acc.nontrivial = acc.hist[H_NT] * orders.len() as u64;
        rep.add_space(&format!("all {} slot orders of {} base {}-slot hands x 5 entry points", orders.len(), bases.len(), n), &acc, t0, "distinct cards, one/two/three blanks in varying slots, a repeated card - in every arrangement of all the slots");
    }

    // (2c) call sequences: every ordered pair over a small alphabet of hands per size (real hands, blank-containing hands,
    //      repeated-card hands), single-threaded - a memo of the previous hand must not leak a real rank into a blank five
    for n in [5usize, 6, 7] {
        let t0 = Instant::now();
        let al = sub_alphabet(12);
        let mut hands: Vec<Vec<u32>> = Vec::new();
        for shift in 0..6usize {
            let cards: Vec<u32> = (0..n).map(|i| al[1 + (i + shift) % 11]).collect();
            hands.push(cards.clone());
            for pos in [0usize, n / 2, n - 1] {
                let mut b = cards.clone();
                b[pos] = 0;
                hands.push(b);
            }
            let mut dup = cards.clone();
            dup[1] = dup[0];
            hands.push(dup);
        }
        hands.push(vec![0; n]);
        let accs = par_parts(1, |_| {
            let mut acc = Acc::new(H_LEN);
            for a in &hands {
                for b in &hands {
                    for e in ENTRIES {
                        acc.cases += 1;
                        acc.calls += 2;
                        acc.nontrivial += 1;
                        let r = guard(|| (call(e, a), call(e, b)));
                        let need_zero = n == 5 && b.contains(&0);
                        let ok = match r {
                            Ok((Some(_), Some((v, inv)))) => !need_zero || (v == 0 && inv),
                            _ => false,
                        };
                        if !ok {
                            // attribute: does b alone behave? then the predecessor matters
                            let size = AnyHand::size_name(n);
                            match super::confirm(judge, Case::w32(&format!("{}.{}", size, e), b)) {
                                Some(v) => acc.violate(v),
                                None => match super::confirm(judge, Case::w32(&format!("{}.{}", size, e), a)) {
                                    Some(v) => acc.violate(v),
                                    None => super::unreproduced(&format!("C05 sequence {} on {:?} then {:?}: wrong or panicking only in sequence, not reproduced alone", e, a, b)),
                                },
                            }
                        }
                    }
                }
            }
            acc
        });
        let acc = Acc::merged(accs);
        rep.add_space(&format!("histories: every ordered pair of {} {}-slot hands (real, blank-containing, repeated-card) x 5 entry points", hands.len(), n), &acc, t0, "single-threaded call sequences of length two");
    }

    {
        let al = sub_alphabet(12);
        let mut items: Vec<Case> = [0u64, 1, 47, 48, 49, MAX_PRODUCT, MAX_PRODUCT + 1, u64::MAX].iter().map(|k| Case::new("find_in_products", &[*k])).collect();
        for n in [5usize, 6, 7] {
            let cards: Vec<u32> = (0..n).map(|i| al[1 + i]).collect();
            let mut blank = cards.clone();
            blank[n / 2] = 0;
            for h in [cards, blank, vec![0u32; n]] {
                for e in ENTRIES {
                    items.push(Case::w32(&format!("{}.{}", AnyHand::size_name(n), e), &h));
                }
            }
        }
        super::history2(rep, judge, &items);
    }

    // (3) the public product-search helper, every key
    {
        let t0 = Instant::now();
        let kind = monitor::kind_id("find_in_products");
        let top = MAX_PRODUCT + 1;
        let nparts = 2048u64;
        let accs = par_parts(nparts as usize, |p| {
            let mut acc = Acc::new(3);
            let lo = (top + 1) * p as u64 / nparts;
            let hi = (top + 1) * (p as u64 + 1) / nparts;
            let mut last_idx = usize::MAX;
            for key in lo..hi {
                monitor::beat(kind, &[key]);
                acc.cases += 1;
                acc.calls += 1;
                match guard(|| Five::find_in_products(key as usize)) {
                    Ok(i) => {
                        if i != last_idx {
                            acc.hist[0] += 1; // distinct results within this block
                            last_idx = i;
                        }
                        if i != 0 {
                            acc.hist[1] += 1; // keys reported as found at a non-zero index
                        }
                    }
                    Err(_) => acc.violate(confirm_mismatch(judge, Case::new("find_in_products", &[key]))),
                }
            }
            acc
        });
        let mut acc = Acc::merged(accs);
        for key in [1u64 << 31, (1 << 32) - 1, 1 << 32, 1 << 63, u64::MAX - 1, u64::MAX, MAX_PRODUCT + 2, MAX_PRODUCT * 2] {
            monitor::beat(kind, &[key]);
            acc.cases += 1;
            acc.calls += 1;
            if guard(|| Five::find_in_products(key as usize)).is_err() {
                acc.violate(confirm_mismatch(judge, Case::new("find_in_products", &[key])));
            }
        }
        acc.nontrivial = acc.hist[1] + 48; // keys that are products (found) + the keys below the smallest product
        rep.hist_add("find_in_products:keys_found_at_nonzero_index", acc.hist[1]);
        rep.guard("find_in_products: the sweep reaches found and not-found keys", acc.cases > MAX_PRODUCT, format!("{} keys", acc.cases));
        rep.sample(sample_json("find_in_products", "key 48 (2*2*2*2*3), key 0, key 104553157", &format!("{:?}", (guard(|| Five::find_in_products(48)), guard(|| Five::find_in_products(0)), guard(|| Five::find_in_products(MAX_PRODUCT as usize))))));
        rep.add_space("find_in_products: every key 0..=104,553,158 + boundary keys", &acc, t0, "every key up to the largest product + 1; above it the helper only ever compares key > product");
    }
    rep.sample(sample_json("five.hand_rank (blank in slot 3)", &show_words(&[sigma53(0), sigma53(1), 0, sigma53(3), sigma53(4)]), &format!("{:?}", guard(|| Five::from([sigma53(0), sigma53(1), 0, sigma53(3), sigma53(4)]).hand_rank()))));
    rep.sample(sample_json("five.hand_rank_value (default hand)", "__ __ __ __ __", &format!("{:?}", guard(|| Five::default().hand_rank_value()))));
    rep.rule = "distinct ordered card-or-blank arrays (and distinct search keys); non-trivial = arrays containing a blank or a repeated card (inputs no ranking test exercises), and for the helper the keys that are products or lie below the smallest product".into();
    rep.bound = if thorough {
        "five slots: complete (53^5 ordered arrays). six/seven slots: all multisets over S53 in all rotations (not all orders). helper: every key up to max product + 1 plus boundary keys".into()
    } else {
        "five slots: all multisets x 5 orders. six/seven slots: all multisets over 30-/20-symbol sub-alphabets x rotations. helper: every key up to max product + 1 plus boundary keys".into()
    };
    rep.assume("a hang is detected by the per-worker watchdog (no progress for CKC_MC_HANG_SECS, default 90 s, inside one published case)");
}

fn hist_out(rep: &mut Report, pre: &str, acc: &Acc) {
    for b in 0..8 {
        if acc.hist[H_BLANKS + b] > 0 {
            rep.hist_add(&format!("{}hands_with_{}_blanks", pre, b), acc.hist[H_BLANKS + b]);
        }
    }
    rep.hist_add(&format!("{}hands_with_repeated_card", pre), acc.hist[H_DUP]);
    if acc.hist[H_FLUSH] + acc.hist[H_UNIQUE5] + acc.hist[H_PRODUCT] > 0 {
        rep.hist_add(&format!("{}input_class_flush_lookup", pre), acc.hist[H_FLUSH]);
        rep.hist_add(&format!("{}input_class_five_distinct_ranks_lookup", pre), acc.hist[H_UNIQUE5]);
        rep.hist_add(&format!("{}input_class_product_search", pre), acc.hist[H_PRODUCT]);
    }
}
