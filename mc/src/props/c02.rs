//! C02 - six/seven-card value is the best contained five-card hand.
//! C03 - the reported best hand is a sorted five-card witness drawn from the input.
//!
//! Both properties explore the same spaces (each in its own pass with its own evidence):
//!   quick:    6H x (six rotations + reverse); 7H x (canonical order + one rotating member of P7 per hand);
//!             the trait's other value entry points on the canonical order; C03 adds 5H x 120 (identity clause)
//!   thorough: 6H x all 720 orders; 7H x all 21 members of P7; every 7-card hand of two 24-card sub-decks in
//!             all 5,040 orders; both build profiles
//! Oracle (C02): best-of-n computed two independent ways (minimum over subsets; direct rule evaluation).
//! Oracle (C03): the witness conditions of the statement; any valid witness is accepted.
use super::{confirm, confirm_mismatch, oracle, sample_json, Ctx};
use crate::engine::enumerate::{choose, combos, combos_prefix, p6, p7, par_parts, permutations};
use crate::engine::evidence::{Acc, Case, Report, Verdict};
use crate::engine::monitor::{self, guard};
use crate::oracle::cards::{deck, show_words, Card};
use crate::oracle::poker::{class_text, classify, key_cat, CAT_NAME, HANDS6_PER_CAT, HANDS7_PER_CAT};
use ckc_rs::cards::five::Five;
use ckc_rs::cards::seven::Seven;
use ckc_rs::cards::six::Six;
use ckc_rs::cards::HandRanker;
use std::time::Instant;

#[derive(Clone, Copy, PartialEq, Eq)]
enum Mode {
    Value,
    Witness,
}

fn rank_and_hand(w: &[u32]) -> (u16, [u32; 5]) {
    rank_and_hand_at(0, w)
}

/// ranks the hand stored at byte offset 4 * (k mod 4) of a 16-byte aligned block (see hands::at_offset)
fn rank_and_hand_at(k: usize, w: &[u32]) -> (u16, [u32; 5]) {
    use super::hands::at_offset;
    match w.len() {
        5 => at_offset(k, Five::from([w[0], w[1], w[2], w[3], w[4]]), |x| {
            let (v, h) = x.hand_rank_value_and_hand();
            (v, h.to_arr())
        }),
        6 => at_offset(k, Six::from([w[0], w[1], w[2], w[3], w[4], w[5]]), |x| {
            let (v, h) = x.hand_rank_value_and_hand();
            (v, h.to_arr())
        }),
        _ => at_offset(k, Seven::from([w[0], w[1], w[2], w[3], w[4], w[5], w[6]]), |x| {
            let (v, h) = x.hand_rank_value_and_hand();
            (v, h.to_arr())
        }),
    }
}

pub const VALUE_ENTRIES: [&str; 5] = ["hand_rank_value_and_hand.0", "hand_rank_value", "hand_rank.value", "hand_rank_value_validated", "hand_rank_validated.value"];

fn call_value(entry: &str, w: &[u32]) -> Option<u16> {
    macro_rules! go {
        ($h:expr) => {
            Some(match entry {
                "hand_rank_value_and_hand.0" => $h.hand_rank_value_and_hand().0,
                "hand_rank_value" => $h.hand_rank_value(),
                "hand_rank.value" => $h.hand_rank().value,
                "hand_rank_value_validated" => $h.hand_rank_value_validated(),
                "hand_rank_validated.value" => $h.hand_rank_validated().value,
                _ => return None,
            })
        };
    }
    match w.len() {
        6 => go!(Six::from([w[0], w[1], w[2], w[3], w[4], w[5]])),
        7 => go!(Seven::from([w[0], w[1], w[2], w[3], w[4], w[5], w[6]])),
        _ => None,
    }
}

/// slow, independent best-of-n: minimum over all subsets of the ordinal of `classify`
fn slow_best(cards: &[Card]) -> (u16, u32) {
    let o = oracle();
    let mut best = (u16::MAX, 0u32);
    for s in combos(cards.len(), 5) {
        let c: Vec<Card> = s.iter().map(|i| cards[*i]).collect();
        let flush = c.iter().all(|x| x.suit() == c[0].suit());
        let key = classify([c[0].rank(), c[1].rank(), c[2].rank(), c[3].rank(), c[4].rank()], flush);
        let v = o.ord_of(key);
        if v < best.0 {
            best = (v, key);
        }
    }
    best
}

/// Case kinds: "<six|seven>.<value entry>" (C02) and "<five|six|seven>.witness" (C03).
pub fn judge(case: &Case) -> Verdict {
    if case.kind.starts_with("history.") {
        return super::history::judge(case);
    }
    let w = case.w32s();
    let (size, entry) = match case.kind.split_once('.') {
        Some(x) => x,
        None => return Verdict::NotJudged("bad case kind".into()),
    };
    let n = match size {
        "five" => 5,
        "six" => 6,
        "seven" => 7,
        _ => return Verdict::NotJudged("bad case kind".into()),
    };
    if w.len() != n {
        return Verdict::NotJudged("word count does not match the hand size".into());
    }
    let cards = match super::c01::distinct_cards(&w) {
        Some(c) => c,
        None => return Verdict::NotJudged("not distinct real cards: outside the property's domain".into()),
    };
    if entry == "witness" {
        // all four memory placements must agree (a placement-dependent answer is reported as such)
        if let Ok(rs) = guard(|| (0..4).map(|k| rank_and_hand_at(k, &w)).collect::<Vec<_>>()) {
            if rs.iter().any(|r| *r != rs[0]) {
                return Verdict::Violated { class: format!("{}:answer-depends-on-memory-placement", case.kind), expected: "the same answer wherever the hand is stored".into(), observed: format!("at offsets 0, 4, 8, 12 of a 16-byte block: {:?}", rs) };
            }
        }
        return match guard(|| rank_and_hand(&w)) {
            Err(p) => Verdict::Violated { class: format!("panic:{}", case.kind), expected: "a value and a witness".into(), observed: format!("panic: {}", p) },
            Ok((v, hand)) => {
                if n == 5 {
                    if hand != [w[0], w[1], w[2], w[3], w[4]] {
                        return Verdict::Violated { class: "five-witness-not-identity".into(), expected: format!("the input unchanged: {}", show_words(&w)), observed: show_words(&hand) };
                    }
                    return Verdict::Holds;
                }
                let mut problems = Vec::new();
                if !hand.windows(2).all(|x| x[0] > x[1]) {
                    problems.push("not-descending");
                }
                if !hand.iter().all(|x| w.contains(x)) {
                    problems.push("card-not-from-input");
                }
                match guard(|| Five::from(hand).hand_rank_value()) {
                    Ok(hv) if hv == v => {}
                    Ok(_) => problems.push("witness-ranks-differently"),
                    Err(_) => problems.push("witness-ranking-panics"),
                }
                if problems.is_empty() {
                    Verdict::Holds
                } else {
                    let hv = guard(|| Five::from(hand).hand_rank_value());
                    Verdict::Violated {
                        class: format!("{}:{}", case.kind, problems.join("+")),
                        expected: format!("five distinct input cards in descending order whose own value is the reported {}", v),
                        observed: format!("witness {} (words {:?}) ranks {:?}; input {}", show_words(&hand), hand, hv, show_words(&w)),
                    }
                }
            }
        };
    }
    if n == 5 {
        return Verdict::NotJudged("C02 is about six and seven cards".into());
    }
    let (exp, key) = slow_best(&cards);
    if oracle().best_by_rules(&cards) != exp {
        monitor::machinery_fail("best-of-n oracles (a) and (b) disagree");
    }
    if let Ok(rs) = guard(|| (0..4).map(|k| rank_and_hand_at(k, &w).0).collect::<Vec<_>>()) {
        if rs.iter().any(|r| *r != exp) && rs.iter().any(|r| *r == exp) {
            return Verdict::Violated { class: format!("wrong-value:{}:depends-on-memory-placement", case.kind), expected: format!("value {} wherever the hand is stored", exp), observed: format!("at offsets 0, 4, 8, 12 of a 16-byte block: {:?}", rs) };
        }
    }
    match guard(|| call_value(entry, &w)) {
        Err(p) => Verdict::Violated { class: format!("panic:{}", case.kind), expected: format!("value {}", exp), observed: format!("panic: {}", p) },
        Ok(None) => Verdict::NotJudged(format!("unknown entry point {}", entry)),
        Ok(Some(v)) if v != exp => Verdict::Violated {
            class: format!("wrong-value:{}", case.kind),
            expected: format!("value {} ({}) = best five-card hand in {}", exp, class_text(key), show_words(&w)),
            observed: format!("value {}", v),
        },
        Ok(Some(_)) => Verdict::Holds,
    }
}

struct SpaceSpec<'a> {
    name: String,
    note: String,
    n: usize,
    /// the (sub-)deck hands are drawn from
    cards: Vec<Card>,
    /// slot orders: `order[i]` is the slot card i goes to
    orders: &'a [Vec<usize>],
    /// how many of `orders` each hand gets: all of them, or the first `fixed` plus one rotating further member
    rotate: Option<usize>,
    /// also run the other value entry points on the canonical order
    extra_entries: bool,
    full_universe: bool,
    /// run this space in the "host logs at Trace level" configuration (see monitor::set_trace_logging)
    trace: bool,
}

const H_CAT: usize = 0; // 9 slots: hands by category of the best hand
const H_ROW: usize = 9; // 21 slots: slot-combination uniquely decisive
const H_TIE: usize = 30; // hands where several subsets tie for best
const H_WDIFF: usize = 31; // hands whose witness differs between explored orders
const H_LEN: usize = 32;

fn sweep(ctx: &Ctx, rep: &mut Report, mode: Mode, sp: &SpaceSpec) {
    if ctx.lean && sp.full_universe {
        return; // lean run (unoptimised crate): sub-deck and history spaces only
    }
    let o = oracle();
    let n = sp.n;
    let size_name = if n == 6 { "six" } else { "seven" };
    let subsets: Vec<Vec<usize>> = combos(n, 5);
    let rows = subsets.len();
    let mut row_of_mask = [usize::MAX; 128];
    for (i, s) in subsets.iter().enumerate() {
        row_of_mask[s.iter().fold(0usize, |m, x| m | 1 << x)] = i;
    }
    let m = sp.cards.len();
    let mut parts = Vec::new();
    for a in 0..m {
        for b in a + 1..m {
            if b + (n - 2) < m {
                parts.push((a, b));
            }
        }
    }
    let kind = monitor::kind_id(&format!("{}.{}", size_name, if mode == Mode::Value { "hand_rank_value_and_hand.0" } else { "witness" }));
    let t0 = Instant::now();
    let per_hand_orders = match sp.rotate {
        None => sp.orders.len(),
        Some(fixed) => fixed + 1,
    };
    let was_trace = monitor::trace_logging();
    if sp.trace {
        monitor::set_trace_logging(true);
    }
    let accs = par_parts(parts.len(), |pi| {
        let (a, b) = parts[pi];
        let mut acc = Acc::new(H_LEN);
        let mut hand_no: u64 = 0;
        let mut cs: Vec<Card> = vec![Card(0); n];
        let mut w = vec![0u32; n];
        let mut arr = vec![0u32; n];
        let mut ords = vec![0u16; rows];
        combos_prefix(m, n, &[a, b], &mut |idx| {
            for i in 0..n {
                cs[i] = sp.cards[idx[i]];
                w[i] = cs[i].word();
            }
            // oracle, way (a): minimum over subsets; way (b): direct rules
            let mut best = u16::MAX;
            for (r, s) in subsets.iter().enumerate() {
                let v = o.ord5(&[cs[s[0]], cs[s[1]], cs[s[2]], cs[s[3]], cs[s[4]]]);
                ords[r] = v;
                if v < best {
                    best = v;
                }
            }
            if o.best_by_rules(&cs) != best {
                monitor::machinery_fail(&format!("best-of-n oracles (a) and (b) disagree on {:?}", cs));
            }
            let attain = ords.iter().filter(|v| **v == best).count();
            let decisive = if attain == 1 { ords.iter().position(|v| *v == best) } else { None };
            acc.hist[H_CAT + key_cat(o.key_of_ord(best).unwrap()) as usize] += 1;
            if attain > 1 {
                acc.hist[H_TIE] += 1;
            }
            let mut first_witness: Option<[u32; 5]> = None;
            let mut wdiff = false;
            for k in 0..per_hand_orders {
                let ord = match sp.rotate {
                    None => &sp.orders[k],
                    Some(fixed) if k < fixed => &sp.orders[k],
                    Some(fixed) => &sp.orders[fixed + ((hand_no + pi as u64 + ctx.seed) % (sp.orders.len() - fixed) as u64) as usize],
                };
                for i in 0..n {
                    arr[ord[i]] = w[i];
                }
                if let Some(s) = decisive {
                    let mask = subsets[s].iter().fold(0usize, |mm, x| mm | 1 << ord[*x]);
                    acc.hist[H_ROW + row_of_mask[mask]] += 1;
                }
                let mut w64 = [0u64; 7];
                for i in 0..n {
                    w64[i] = arr[i] as u64;
                }
                monitor::beat(kind, &w64[..n]);
                acc.cases += 1;
                acc.calls += 1;
                // memory placement rotates with the case number: every hand meets every placement across its orders
                let r = guard(|| rank_and_hand_at((hand_no as usize).wrapping_add(k), &arr));
                match mode {
                    Mode::Value => {
                        if !matches!(r, Ok((v, _)) if v == best) {
                            acc.violate(confirm_mismatch(judge, Case::w32(&format!("{}.hand_rank_value_and_hand.0", size_name), &arr)));
                        }
                        if sp.extra_entries && k == 0 {
                            for e in &VALUE_ENTRIES[1..] {
                                acc.calls += 1;
                                if !matches!(guard(|| call_value(e, &arr)), Ok(Some(v)) if v == best) {
                                    acc.violate(confirm_mismatch(judge, Case::w32(&format!("{}.{}", size_name, e), &arr)));
                                }
                            }
                        }
                    }
                    Mode::Witness => {
                        let ok = match &r {
                            Ok((v, h)) => {
                                acc.calls += 1;
                                let good = h.windows(2).all(|x| x[0] > x[1]) && h.iter().all(|x| w.contains(x)) && matches!(guard(|| Five::from(*h).hand_rank_value()), Ok(hv) if hv == *v);
                                match first_witness {
                                    None => first_witness = Some(*h),
                                    Some(f) if f != *h => wdiff = true,
                                    _ => {}
                                }
                                good
                            }
                            Err(_) => false,
                        };
                        if !ok {
                            acc.violate(confirm_mismatch(judge, Case::w32(&format!("{}.witness", size_name), &arr)));
                        }
                    }
                }
            }
            if wdiff {
                acc.hist[H_WDIFF] += 1;
            }
            // non-trivial: the best hand is not simply the first five slots' hand in canonical order
            if ords[0] != best {
                acc.nontrivial += per_hand_orders as u64;
            }
            if acc.samples.is_empty() && (pi as u64 + ctx.seed) % 97 == 0 && hand_no == 3 {
                let (v, h) = rank_and_hand(&w);
                acc.samples.push(sample_json(&format!("{}.hand_rank_value_and_hand", size_name), &show_words(&w), &format!("value {} witness {} ; oracle best {} ({})", v, show_words(&h), best, class_text(o.key_of_ord(best).unwrap()))));
            }
            hand_no += 1;
        });
        acc
    });
    monitor::set_trace_logging(was_trace);
    let acc = Acc::merged(accs);
    rep.add_space(&sp.name, &acc, t0, &sp.note);
    let pre = format!("{}:", sp.name);
    rep.hist_named(&format!("{}best_category:", pre), &CAT_NAME, &acc.hist[H_CAT..H_CAT + 9]);
    for r in 0..rows {
        rep.hist_add(&format!("{}uniquely_decisive_slot_row_{:02}_{:?}", pre, r, subsets[r]), acc.hist[H_ROW + r]);
    }
    rep.hist_add(&format!("{}hands_with_tied_best_subsets", pre), acc.hist[H_TIE]);
    if mode == Mode::Witness {
        rep.hist_add(&format!("{}hands_whose_witness_differs_between_orders", pre), acc.hist[H_WDIFF]);
    }
    let hands: u64 = acc.hist[H_CAT..H_CAT + 9].iter().sum();
    rep.guard(&format!("{}: number of hands", sp.name), hands == choose(m as u64, n as u64), format!("{} hands, expected C({},{})", hands, m, n));
    if sp.full_universe {
        let expect = if n == 6 { HANDS6_PER_CAT } else { HANDS7_PER_CAT };
        rep.guard(&format!("{}: best-hand category histogram equals the combinatorial constants", sp.name), (0..9).all(|c| acc.hist[H_CAT + c] == expect[c]), format!("{:?}", &acc.hist[H_CAT..H_CAT + 9]));
    }
    rep.guard(
        &format!("{}: every slot row is uniquely decisive for some explored (hand, order)", sp.name),
        (0..rows).all(|r| acc.hist[H_ROW + r] > 0),
        format!("{:?}", &acc.hist[H_ROW..H_ROW + rows]),
    );
}

fn to_orders<const N: usize>(v: Vec<[usize; N]>) -> Vec<Vec<usize>> {
    v.into_iter().map(|p| p.to_vec()).collect()
}

/// two 12-card sub-decks rich in near-misses: a six-card suited run with off-suit cards that pair its members, and a
/// suited wheel-to-seven run with off-suit pairs; every 6- and 7-card hand of them is explored in EVERY slot order
pub fn small_sub_decks() -> Vec<(String, Vec<Card>)> {
    let c = Card::new;
    vec![
        ("{K..8}S + {K,9,8,2}H + {9,2}D".to_string(), vec![c(11, 3), c(10, 3), c(9, 3), c(8, 3), c(7, 3), c(6, 3), c(11, 2), c(7, 2), c(6, 2), c(0, 2), c(7, 1), c(0, 1)]),
        ("{A,7,6,5,4,3,2}H + {A,4,7}C + {7,4}S".to_string(), vec![c(12, 2), c(5, 2), c(4, 2), c(3, 2), c(2, 2), c(1, 2), c(0, 2), c(12, 0), c(2, 0), c(5, 0), c(5, 3), c(2, 3)]),
    ]
}

fn sub_deck(ranks: &[u8]) -> Vec<Card> {
    // deck order: suit-major like the full deck
    deck().iter().copied().filter(|c| ranks.contains(&c.rank())).collect()
}

fn run_mode(ctx: &Ctx, rep: &mut Report, mode: Mode) {
    let full = deck().to_vec();
    if !ctx.tier.thorough() {
        // 6H x (P6 + reverse)
        let mut o6 = to_orders(p6());
        o6.push((0..6).rev().collect());
        sweep(ctx, rep, mode, &SpaceSpec { name: "6H x (6 rotations + reverse)".into(), note: "all 20,358,520 six-card subsets; by the P6 covering fact every five-card sub-hand meets every slot combination".into(), n: 6, cards: full.clone(), orders: &o6, rotate: None, extra_entries: true, full_universe: true, trace: false });
        // 7H x (identity + one rotating member of P7)
        let o7 = to_orders(p7());
        let all6 = permutations(6);
        let all7 = permutations(7);
        for (name, cards) in small_sub_decks() {
            sweep(ctx, rep, mode, &SpaceSpec { name: format!("sub-deck {} : 6-card hands x all 720 orders", name), note: "every six-card hand of a 12-card sub-deck in every slot order".into(), n: 6, cards: cards.clone(), orders: &all6, rotate: None, extra_entries: false, full_universe: false, trace: false });
            sweep(ctx, rep, mode, &SpaceSpec { name: format!("sub-deck {} : 7-card hands x all 5040 orders", name), note: "every seven-card hand of a 12-card sub-deck in every arrangement of all seven slots".into(), n: 7, cards, orders: &all7, rotate: None, extra_entries: false, full_universe: false, trace: false });
        }
        let canon6: Vec<Vec<usize>> = vec![(0..6).collect()];
        let canon7: Vec<Vec<usize>> = vec![(0..7).collect()];
        sweep(ctx, rep, mode, &SpaceSpec { name: "6H canonical, host logging at Trace level".into(), note: "every six-card subset once more with a Trace-level logger installed (a verbose twin of the ranking path is a separate implementation)".into(), n: 6, cards: full.clone(), orders: &canon6, rotate: None, extra_entries: true, full_universe: true, trace: true });
        let _ = &canon7;
        for (name, cards) in small_sub_decks() {
            sweep(ctx, rep, mode, &SpaceSpec { name: format!("sub-deck {} : 7-card hands x all 5040 orders, host logging at Trace level", name), note: "every seven-card hand of a 12-card sub-deck in every slot order with a Trace-level logger installed (all seven-card hands run under Trace in the thorough tier's overflow-checked profile)".into(), n: 7, cards, orders: &all7, rotate: None, extra_entries: false, full_universe: false, trace: true });
        }
        sweep(ctx, rep, mode, &SpaceSpec { name: "7H x (canonical + 1 rotating P7 order)".into(), note: "all 133,784,560 seven-card subsets in canonical order, plus for each hand one further member of P7 chosen by hand index (every member is applied to ~1/20 of the universe)".into(), n: 7, cards: full.clone(), orders: &o7, rotate: Some(1), extra_entries: false, full_universe: true, trace: false });
    } else {
        let o6 = permutations(6);
        sweep(ctx, rep, mode, &SpaceSpec { name: "6H x all 720 orders".into(), note: "all six-card subsets in every slot order: the whole six-card domain".into(), n: 6, cards: full.clone(), orders: &o6, rotate: None, extra_entries: true, full_universe: true, trace: false });
        let o7 = to_orders(p7());
        sweep(ctx, rep, mode, &SpaceSpec { name: "7H x P7 (21 orders)".into(), note: "all seven-card subsets; P7 puts every five-card sub-hand of every hand on every slot combination exactly once".into(), n: 7, cards: full.clone(), orders: &o7, rotate: None, extra_entries: true, full_universe: true, trace: false });
        let all7 = permutations(7);
        sweep(ctx, rep, mode, &SpaceSpec { name: "sub-deck {A,K,Q,J,T,9} x all 5040 orders".into(), note: "every 7-card hand of the 24-card sub-deck in every slot order".into(), n: 7, cards: sub_deck(&[12, 11, 10, 9, 8, 7]), orders: &all7, rotate: None, extra_entries: false, full_universe: false, trace: false });
        sweep(ctx, rep, mode, &SpaceSpec { name: "sub-deck {A,8,5,4,3,2} x all 5040 orders".into(), note: "every 7-card hand of the 24-card sub-deck (wheels, low cards) in every slot order".into(), n: 7, cards: sub_deck(&[12, 6, 3, 2, 1, 0]), orders: &all7, rotate: None, extra_entries: false, full_universe: false, trace: false });
    }
    rep.assume("best-of-n oracle: minimum over subsets of the rule-derived class ordinal, cross-checked on every explored hand against a direct rule evaluator");
}

fn representative_items(witness: bool) -> Vec<Case> {
    let d = deck();
    let mut items = Vec::new();
    for n in [6usize, 7] {
        let size = if n == 6 { "six" } else { "seven" };
        for k in 0..8usize {
            let w: Vec<u32> = (0..n).map(|i| d[(k * 6 + i * (k % 3 + 1)) % 52].word()).collect();
            if super::c01::distinct_cards(&w).is_none() {
                continue;
            }
            if witness {
                items.push(Case::w32(&format!("{}.witness", size), &w));
            } else {
                for e in VALUE_ENTRIES {
                    items.push(Case::w32(&format!("{}.{}", size, e), &w));
                }
            }
        }
    }
    if witness {
        items.push(Case::w32("five.witness", &[d[0].word(), d[20].word(), d[3].word(), d[40].word(), d[7].word()]));
    }
    items
}

pub fn run_c02(ctx: &Ctx, rep: &mut Report) {
    if ctx.probe {
        // cold-start schedule sample: the first calls of 16 threads of a fresh process, on flush-heavy hands of every suit
        let mut items: Vec<Vec<u32>> = Vec::new();
        for s in 0..4u8 {
            for top in [12u8, 10, 7, 5] {
                let six: Vec<u32> = (0..6).map(|i| Card::new(top - i, s).word()).collect();
                let mut seven = six.clone();
                seven.push(Card::new(1, (s + 1) % 4).word());
                let mut mixed = six.clone();
                mixed[2] = Card::new(top - 2, (s + 3) % 4).word();
                items.push(six);
                items.push(seven);
                items.push(mixed);
            }
        }
        super::probe_body(rep, items.len(), &|i| {
            let w = &items[i];
            let size = if w.len() == 6 { "six" } else { "seven" };
            confirm(judge, Case::w32(&format!("{}.hand_rank_value_and_hand.0", size), w)).map(|mut v| {
                v.class = format!("cold-start:{}", v.class);
                v
            })
        });
        return;
    }
    if let Some((k, n)) = ctx.shard {
        super::history::sharded_pairs(rep, 6, false, ctx.tier.thorough(), ctx.lean, k, n);
        super::history::sharded_pairs(rep, 7, false, ctx.tier.thorough(), ctx.lean, k, n);
        return;
    }
    if !ctx.lean {
        super::cold_start_probe(ctx, rep, if ctx.tier.thorough() { 24 } else { 8 });
    }
    run_mode(ctx, rep, Mode::Value);
    super::spawn_shards(ctx, rep, 16);
    super::history2(rep, judge, &representative_items(false));
    super::history::space(rep, 6, false, ctx.tier.thorough());
    super::history::space(rep, 7, false, ctx.tier.thorough());
    rep.rule = "distinct (hand, slot order) pairs; non-trivial = the best five-card hand is not the one in the first five canonical slots (so the search over slot combinations matters)".into();
    rep.bound = if ctx.tier.thorough() {
        "six cards: complete (all subsets x all 720 orders). seven cards: all subsets x the 21 orders of P7 (every 5-sub-hand on every slot combination), plus all 5,040 orders on two 24-card sub-decks; the remaining orders of the remaining hands are outside".into()
    } else {
        "six cards: all subsets x 7 orders (P6 covering + reverse). seven cards: all subsets x canonical order + one rotating P7 order per hand".into()
    };
}

pub fn run_c03(ctx: &Ctx, rep: &mut Report) {
    if let Some((k, n)) = ctx.shard {
        for nc in 5..=7 {
            super::history::sharded_pairs(rep, nc, true, ctx.tier.thorough(), ctx.lean, k, n);
        }
        return;
    }
    run_mode(ctx, rep, Mode::Witness);
    super::spawn_shards(ctx, rep, 16);
    super::history2(rep, judge, &representative_items(true));
    for n in 5..=7 {
        super::history::space(rep, n, true, ctx.tier.thorough());
    }
    if ctx.lean {
        rep.rule = "lean run".into();
        return;
    }
    // identity clause: 5H x 120 orders
    let d = deck();
    let perms: Vec<Vec<usize>> = permutations(5);
    let mut parts = Vec::new();
    for a in 0..48usize {
        for b in a + 1..49 {
            parts.push((a, b));
        }
    }
    let kind = monitor::kind_id("five.witness");
    let t0 = Instant::now();
    let accs = par_parts(parts.len(), |pi| {
        let (a, b) = parts[pi];
        let mut acc = Acc::new(1);
        for c in b + 1..50 {
            for dd in c + 1..51 {
                for e in dd + 1..52 {
                    let w = [d[a].word(), d[b].word(), d[c].word(), d[dd].word(), d[e].word()];
                    monitor::beat(kind, &[w[0] as u64, w[1] as u64, w[2] as u64, w[3] as u64, w[4] as u64]);
                    for p in &perms {
                        let arr = [w[p[0]], w[p[1]], w[p[2]], w[p[3]], w[p[4]]];
                        acc.cases += 1;
                        acc.calls += 1;
                        if !matches!(guard(|| Five::from(arr).hand_rank_value_and_hand().1.to_arr()), Ok(h) if h == arr) {
                            if let Some(v) = confirm(judge, Case::w32("five.witness", &arr)) {
                                acc.violate(v);
                            } else {
                                super::unreproduced("five.witness fast path mismatch not reproduced");
                            }
                        }
                        if arr != w {
                            acc.nontrivial += 1;
                        }
                    }
                }
            }
        }
        acc
    });
    let acc = Acc::merged(accs);
    rep.add_space("5H x 120 orders (identity clause)", &acc, t0, "the reported hand of a five-card input is the input unchanged");
    rep.rule = "distinct (hand, slot order) pairs; non-trivial (6/7 cards) = the best hand is not in the first five canonical slots; (5 cards) = a non-canonical order".into();
    rep.bound = if ctx.tier.thorough() { "as C02 thorough, plus all five-card hands x 120 orders".into() } else { "as C02 quick, plus all five-card hands x 120 orders".into() };
    rep.assume("any witness satisfying the statement's conditions is accepted; which of several tied sub-hands is returned is not judged");
}
