//! C01 - Five-card rank value is the hand's exact poker strength ordinal.
//!
//! Space: all 2,598,960 five-card subsets x all 120 slot orders x the five-card entry points - the property's
//! whole domain. Oracle: class ordinal derived from the rules (oracle::poker).
use super::{confirm_mismatch, oracle, sample_json, Ctx};
use crate::engine::enumerate::{par_parts, permutations};
use crate::engine::evidence::{Acc, Case, Report, Verdict};
use crate::engine::monitor::{self, guard};
use crate::oracle::cards::{deck, show_words, word_to_card, Card};
use crate::oracle::poker::{classify, key_cat, CAT_NAME, HANDS5_PER_CAT};
use ckc_rs::cards::five::Five;
use ckc_rs::cards::HandRanker;
use std::sync::atomic::{AtomicU32, Ordering::Relaxed};
use std::time::Instant;

pub const ENTRIES: [&str; 6] = [
    "five.hand_rank_value",
    "five.hand_rank_value_validated",
    "evaluate.five_cards",
    "five.hand_rank.value",
    "five.hand_rank_validated.value",
    "five.hand_rank_value_and_hand.0",
];

pub fn call_entry(entry: &str, arr: [u32; 5]) -> Option<u16> {
    let f = Five::from(arr);
    Some(match entry {
        "five.hand_rank_value" => f.hand_rank_value(),
        "five.hand_rank_value_validated" => f.hand_rank_value_validated(),
        "evaluate.five_cards" => ckc_rs::evaluate::five_cards(arr),
        "five.hand_rank.value" => f.hand_rank().value,
        "five.hand_rank_validated.value" => f.hand_rank_validated().value,
        "five.hand_rank_value_and_hand.0" => f.hand_rank_value_and_hand().0,
        _ => return None,
    })
}

pub fn distinct_cards(w: &[u32]) -> Option<Vec<Card>> {
    let mut v = Vec::with_capacity(w.len());
    for x in w {
        let c = word_to_card(*x)?;
        if v.contains(&c) {
            return None;
        }
        v.push(c);
    }
    Some(v)
}

pub fn judge(case: &Case) -> Verdict {
    if case.kind.starts_with("history.") {
        return super::history::judge(case);
    }
    let w = case.w32s();
    if w.len() != 5 {
        return Verdict::NotJudged("C01 cases have five words".into());
    }
    let cards = match distinct_cards(&w) {
        Some(c) => c,
        None => return Verdict::NotJudged("not five distinct real cards: outside C01's domain".into()),
    };
    let flush = cards.iter().all(|c| c.suit() == cards[0].suit());
    let key = classify([cards[0].rank(), cards[1].rank(), cards[2].rank(), cards[3].rank(), cards[4].rank()], flush);
    let exp = oracle().ord_of(key);
    let arr = [w[0], w[1], w[2], w[3], w[4]];
    match guard(|| call_entry(&case.kind, arr)) {
        Err(p) => Verdict::Violated { class: format!("panic:{}", case.kind), expected: format!("value {} ({})", exp, crate::oracle::poker::class_text(key)), observed: format!("panic: {}", p) },
        Ok(None) => Verdict::NotJudged(format!("unknown entry point {}", case.kind)),
        Ok(Some(v)) if v != exp => Verdict::Violated {
            class: format!("wrong-value:{}", case.kind),
            expected: format!("value {} ({}) for {}", exp, crate::oracle::poker::class_text(key), show_words(&w)),
            observed: format!("value {}", v),
        },
        Ok(Some(_)) => Verdict::Holds,
    }
}

fn representative_items() -> Vec<Case> {
    let d = deck();
    let mut items = Vec::new();
    for k in 0..10usize {
        let w: Vec<u32> = (0..5).map(|i| d[(k * 5 + i * (k % 4 + 1)) % 52].word()).collect();
        if distinct_cards(&w).is_some() {
            for e in ENTRIES {
                items.push(Case::w32(e, &w));
            }
        }
    }
    // one hand per category, spades-heavy and mixed
    let c = |r: u8, s: u8| crate::oracle::cards::Card::new(r, s).word();
    for h in [[c(12, 3), c(11, 3), c(10, 3), c(9, 3), c(8, 3)], [c(12, 3), c(12, 2), c(12, 1), c(12, 0), c(11, 3)], [c(5, 3), c(5, 2), c(5, 1), c(3, 0), c(3, 3)], [c(12, 1), c(9, 1), c(7, 1), c(4, 1), c(2, 1)], [c(12, 0), c(3, 1), c(2, 2), c(1, 3), c(0, 0)], [c(5, 3), c(3, 2), c(2, 1), c(1, 0), c(0, 3)]] {
        for e in ENTRIES {
            items.push(Case::w32(e, &h));
        }
    }
    items
}

pub fn run(ctx: &Ctx, rep: &mut Report) {
    if ctx.probe {
        if let Some((i, reps)) = super::repeat_probe_request() {
            let items = representative_items();
            if i < items.len() {
                super::repeat_probe_body(rep, judge, &items[i], reps);
            }
        }
        return;
    }
    if ctx.shard.is_none() {
        super::cold_repeat_probe(ctx, rep, representative_items().len(), 512);
    }
    if let Some((k, n)) = ctx.shard {
        super::history::sharded_pairs(rep, 5, false, ctx.tier.thorough(), ctx.lean, k, n);
        return;
    }
    let o = oracle();
    let d = deck();
    let mut perms: Vec<[usize; 5]> = permutations(5).into_iter().map(|p| [p[0], p[1], p[2], p[3], p[4]]).collect();
    if ctx.lean {
        // lean run (unoptimised crate): five spread-out slot orders instead of all 120
        perms = vec![perms[0], perms[119], perms[33], perms[71], perms[101]];
    }
    let np = perms.len() as u64;
    let n_entries = if ctx.tier.thorough() { 6 } else { 3 };
    let thorough = ctx.tier.thorough();
    let mut parts = Vec::new();
    for a in 0..48usize {
        for b in a + 1..49 {
            parts.push((a, b));
        }
    }
    let kind = monitor::kind_id("five.*");
    let hits: Vec<AtomicU32> = (0..7463).map(|_| AtomicU32::new(0)).collect();
    let observed: Vec<AtomicU32> = (0..65536).map(|_| AtomicU32::new(0)).collect();
    let t0 = Instant::now();
    let accs = par_parts(parts.len(), |pi| {
        let (a, b) = parts[pi];
        let mut acc = Acc::new(9);
        for c in b + 1..50 {
            for dd in c + 1..51 {
                for e in dd + 1..52 {
                    let cs = [d[a], d[b], d[c], d[dd], d[e]];
                    let exp = o.ord5(&cs);
                    let w = [cs[0].word(), cs[1].word(), cs[2].word(), cs[3].word(), cs[4].word()];
                    monitor::beat(kind, &[w[0] as u64, w[1] as u64, w[2] as u64, w[3] as u64, w[4] as u64]);
                    let r = guard(|| {
                        let mut bad = false;
                        for (pi2, p) in perms.iter().enumerate() {
                            let arr = [w[p[0]], w[p[1]], w[p[2]], w[p[3]], w[p[4]]];
                            let f = Five::from(arr);
                            // the same ranking with the hand stored at each of the four 4-byte placements in turn
                            bad |= super::hands::at_offset(pi2, f, |x| x.hand_rank_value()) != exp;
                            bad |= f.hand_rank_value() != exp;
                            bad |= f.hand_rank_value_validated() != exp;
                            bad |= ckc_rs::evaluate::five_cards(arr) != exp;
                            if thorough {
                                bad |= f.hand_rank().value != exp;
                                bad |= f.hand_rank_validated().value != exp;
                                bad |= f.hand_rank_value_and_hand().0 != exp;
                            }
                        }
                        (bad, Five::from(w).hand_rank_value())
                    });
                    acc.cases += np;
                    acc.calls += np * n_entries as u64;
                    acc.hist[key_cat(o.key5(&cs)) as usize] += 1;
                    hits[exp as usize].fetch_add(1, Relaxed);
                    match r {
                        Ok((false, v)) => {
                            observed[v as usize].fetch_add(1, Relaxed);
                        }
                        _ => {
                            // slow path: attribute the mismatch / panic to exact (order, entry point) cases
                            if acc.viol_count > 2000 {
                                acc.viol_count += 1;
                                continue;
                            }
                            let mut found = false;
                            for p in &perms {
                                let arr = [w[p[0]], w[p[1]], w[p[2]], w[p[3]], w[p[4]]];
                                for entry in ENTRIES.iter().take(n_entries) {
                                    let bad = match guard(|| call_entry(entry, arr)) {
                                        Ok(Some(v)) => v != exp,
                                        _ => true,
                                    };
                                    if bad {
                                        found = true;
                                        acc.violate(confirm_mismatch(judge, Case::w32(entry, &arr)));
                                    }
                                }
                            }
                            if !found {
                                super::unreproduced("C01 fast path mismatch not reproduced by the slow path");
                            }
                        }
                    }
                    if acc.samples.len() < 1 && (pi as u64 + ctx.seed) % 331 == 0 {
                        acc.samples.push(sample_json("five.hand_rank_value x 120 orders x entry points", &show_words(&w), &format!("value {} = oracle ordinal {}", Five::from(w).hand_rank_value(), exp)));
                    }
                }
            }
        }
        acc
    });
    let mut acc = Acc::merged(accs);
    // every ordered array is a distinct input of the property's domain
    acc.nontrivial = acc.cases;
    rep.add_space(if ctx.lean { "5H x 5 orders x entry points (lean)" } else { "5H x 120 orders x entry points" }, &acc, t0, "all 2,598,960 five-card subsets, every slot order, every entry point");
    rep.hist_named("hands_by_category:", &CAT_NAME, &acc.hist);
    let cat_ok = (0..9).all(|c| acc.hist[c] == HANDS5_PER_CAT[c]);
    rep.guard("category histogram equals the combinatorial constants", cat_ok, format!("{:?}", &acc.hist[..9]));
    let class_ok = (1..=7462).all(|v| hits[v].load(Relaxed) == o.class_size[v]);
    rep.guard("every class 1..=7462 visited with exactly its class size (oracle side)", class_ok, "per-value hit counts vs class sizes".into());
    let distinct_obs = (0..65536).filter(|v| observed[*v].load(Relaxed) > 0).count() as u64;
    rep.hist_add("distinct_values_observed", distinct_obs);
    if rep.viol_count == 0 {
        // surjectivity, checked directly on what the crate returned
        let surj = (1..=7462).all(|v| observed[v].load(Relaxed) > 0) && distinct_obs == 7462;
        rep.guard("observed values are exactly 1..=7462", surj, format!("{} distinct values observed", distinct_obs));
    }
    {
        // configuration: a host that logs at Trace level - every hand once (canonical order) through every entry point
        let t1 = Instant::now();
        let was = monitor::trace_logging();
        monitor::set_trace_logging(true);
        let accs = par_parts(parts.len(), |pi| {
            let (a, b) = parts[pi];
            let mut acc = Acc::new(1);
            for c in b + 1..50 {
                for dd in c + 1..51 {
                    for e in dd + 1..52 {
                        let cs = [d[a], d[b], d[c], d[dd], d[e]];
                        let exp = o.ord5(&cs);
                        let w = [cs[0].word(), cs[1].word(), cs[2].word(), cs[3].word(), cs[4].word()];
                        acc.cases += 1;
                        acc.calls += ENTRIES.len() as u64;
                        acc.nontrivial += 1;
                        for entry in ENTRIES {
                            if !matches!(guard(|| call_entry(entry, w)), Ok(Some(v)) if v == exp) {
                                let mut v = confirm_mismatch(judge, Case::w32(entry, &w));
                                v.observed.push_str(" [with a Trace-level logger installed]");
                                acc.violate(v);
                            }
                        }
                    }
                }
            }
            acc
        });
        monitor::set_trace_logging(was);
        let acc = Acc::merged(accs);
        rep.add_space("5H canonical x entry points, host logging at Trace level", &acc, t1, "every five-card subset once more with a Trace-level logger installed");
    }
    {
        // representative cases through the canonical judge, in all ordered pairs (also audits the judge itself)
        super::history2(rep, judge, &representative_items());
    }
    // call sequences: a hidden memo / cache would answer every single input correctly and fail after a predecessor
    super::history::space(rep, 5, false, ctx.tier.thorough());
    super::spawn_shards(ctx, rep, 16);
    rep.rule = "every five-card subset of the deck (oracle deck order) in every one of the 120 slot orders, through every five-card entry point; distinct = distinct ordered arrays, all of which are in the property's domain (each reaches a table cell through its own pre-image)".into();
    rep.bound = "inputs: none, the property's whole domain is enumerated. Histories: every input is also ranked right after a confusable predecessor (depth-2 call sequences over a 14-card sub-deck); longer histories are outside".into();
    rep.assume("the rule-derived class order (oracle::poker) is the standard poker strength order; self-checked against the textbook class and hand counts");
}
