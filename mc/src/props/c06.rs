//! C06 - hand rank name and class describe exactly the poker class of the value.
//!
//! Spaces: all 65,536 values (conversion, the two determine_* functions, is_invalid, the self-consistency test,
//! default); all 310 class variants (each non-Invalid one labels a non-empty contiguous value range); all five-card
//! hands in two orders through hand_rank() / hand_rank_validated() (thorough: also all six- and seven-card hands).
//! Oracle: the v-th class of the rule-derived order; its category / class *text* is generated from the class key
//! with the crate's published vocabulary, and for hands it is generated from the cards, not from the value.
use super::hands::AnyHand;
use super::{confirm, oracle, sample_json, Ctx};
use crate::engine::enumerate::{combos_prefix, par_parts};
use crate::engine::evidence::{Acc, Case, Report, Verdict};
use crate::engine::monitor::{self, guard};
use crate::oracle::cards::{deck, show_words, Card};
use crate::oracle::poker::{cat_text, class_text};
use ckc_rs::cards::five::Five;
use ckc_rs::cards::seven::Seven;
use ckc_rs::cards::six::Six;
use ckc_rs::cards::HandRanker;
use ckc_rs::hand_rank::{HandRank, HandRankClass, HandRankName};
use std::collections::HashMap;
use std::sync::OnceLock;
use std::time::Instant;
use strum::IntoEnumIterator;

/// expected (name, class) variants per value, looked up from the generated text through the crate's own variants
struct Expect {
    name: Vec<Option<HandRankName>>,
    class: Vec<Option<HandRankClass>>,
    name_text: Vec<String>,
    class_text: Vec<String>,
}
static EXPECT: OnceLock<Expect> = OnceLock::new();
fn expect() -> &'static Expect {
    EXPECT.get_or_init(|| {
        let o = oracle();
        let names: HashMap<String, HandRankName> = HandRankName::iter().map(|n| (super::variants::name_ident(n).to_string(), n)).collect();
        let classes: HashMap<String, HandRankClass> = HandRankClass::iter().map(|c| (super::variants::class_ident(c).to_string(), c)).collect();
        let mut e = Expect { name: vec![], class: vec![], name_text: vec![], class_text: vec![] };
        for v in 0..=65535u32 {
            let (nt, ct) = match o.key_of_ord(v as u16) {
                Some(k) => (cat_text(k).to_string(), class_text(k)),
                None => ("Invalid".to_string(), "Invalid".to_string()),
            };
            e.name.push(names.get(&nt).copied());
            e.class.push(classes.get(&ct).copied());
            e.name_text.push(nt);
            e.class_text.push(ct);
        }
        e
    })
}

fn rank_of(entry: &str, w: &[u32]) -> Option<HandRank> {
    macro_rules! go {
        ($h:expr) => {
            match entry {
                "hand_rank" => Some($h.hand_rank()),
                "hand_rank_validated" => Some($h.hand_rank_validated()),
                _ => None,
            }
        };
    }
    match w.len() {
        5 => go!(Five::from([w[0], w[1], w[2], w[3], w[4]])),
        6 => go!(Six::from([w[0], w[1], w[2], w[3], w[4], w[5]])),
        7 => go!(Seven::from([w[0], w[1], w[2], w[3], w[4], w[5], w[6]])),
        _ => None,
    }
}

fn describe(h: &HandRank) -> String {
    format!("value {} name {:?} class {:?}", h.value, h.name, h.class)
}

/// Case kinds: "value" [v]; "class-range" [variant index in HandRankClass::iter() order];
/// "<five|six|seven>.<hand_rank|hand_rank_validated>" [card words].
pub fn judge(case: &Case) -> Verdict {
    let e = expect();
    if case.kind == "value" {
        let v = match case.words.first() {
            Some(v) if *v <= 65535 => *v as u16,
            _ => return Verdict::NotJudged("value out of u16".into()),
        };
        let valid = (1..=7462).contains(&v);
        let exp = format!("value {} name {} class {} is_invalid {} consistent true", v, e.name_text[v as usize], e.class_text[v as usize], !valid);
        // the same conversion through every dispatch path a caller can write: the path call `HandRank::from`, the trait
        // explicitly, and `.into()` (an inherent function of the same name would shadow the trait only for the first)
        let via_trait: Result<(HandRank, HandRank), String> = guard(|| (<HandRank as From<u16>>::from(v), Into::<HandRank>::into(v)));
        match &via_trait {
            Err(p) => return Verdict::Violated { class: "panic:value:trait-dispatch".into(), expected: exp, observed: format!("panic: {}", p) },
            Ok((a, b)) => {
                let direct = guard(|| HandRank::from(v));
                if direct.as_ref().ok() != Some(a) || a != b {
                    return Verdict::Violated { class: "value:conversion-depends-on-dispatch-path".into(), expected: format!("HandRank::from({v}), <HandRank as From<u16>>::from({v}) and {v}.into() are the same rank"), observed: format!("{:?} / {} / {}", direct.map(|h| describe(&h)), describe(a), describe(b)) };
                }
            }
        }
        return match guard(|| {
            let h = HandRank::from(v);
            let n = HandRank::determine_name(&v);
            let c = HandRank::determine_class(&v);
            let dflt = HandRank::default();
            (h, n, c, h.is_invalid(), h.is_a_valid_hand_rank(), dflt)
        }) {
            Err(p) => Verdict::Violated { class: "panic:value".into(), expected: exp, observed: format!("panic: {}", p) },
            Ok((h, n, c, inv, cons, dflt)) => {
                let mut problems = Vec::new();
                if h.value != v {
                    problems.push("value-not-carried");
                }
                if super::variants::name_ident(h.name) != e.name_text[v as usize] || n != h.name {
                    problems.push("wrong-category");
                }
                if super::variants::class_ident(h.class) != e.class_text[v as usize] || c != h.class {
                    problems.push("wrong-class");
                }
                if inv == valid {
                    problems.push("is_invalid-wrong");
                }
                if !cons {
                    problems.push("fails-own-consistency-test");
                }
                // the statement says nothing about WHICH rank is the default; only that a rank describes its value
                if v == 0 && dflt != HandRank::from(dflt.value) {
                    problems.push("default-is-not-the-rank-of-its-value");
                }
                if problems.is_empty() {
                    Verdict::Holds
                } else {
                    Verdict::Violated { class: format!("value:{}", problems.join("+")), expected: exp, observed: format!("{} determine_name {:?} determine_class {:?} is_invalid {} consistent {}", describe(&h), n, c, inv, cons) }
                }
            }
        };
    }
    if case.kind == "class-range" {
        let idx = case.words.first().copied().unwrap_or(u64::MAX) as usize;
        let variants: Vec<HandRankClass> = HandRankClass::iter().collect();
        if idx >= variants.len() {
            return Verdict::NotJudged("no such variant".into());
        }
        let var = variants[idx];
        let vals: Vec<u32> = (0..=65535u32).filter(|v| HandRank::determine_class(&(*v as u16)) == var).collect();
        if var == HandRankClass::Invalid {
            let ok = vals.len() == 65536 - 7462 && vals[0] == 0 && vals[1] == 7463;
            return if ok { Verdict::Holds } else { Verdict::Violated { class: "class-range:Invalid".into(), expected: "Invalid labels exactly 0 and 7463..=65535".into(), observed: format!("{} values, first {:?}", vals.len(), &vals[..vals.len().min(3)]) } };
        }
        let contiguous = !vals.is_empty() && (vals[vals.len() - 1] - vals[0]) as usize == vals.len() - 1;
        let in_range = vals.iter().all(|v| (1..=7462).contains(v));
        return if contiguous && in_range {
            Verdict::Holds
        } else {
            Verdict::Violated {
                class: format!("class-range:{}", if vals.is_empty() { "unused-variant" } else if !in_range { "labels-invalid-value" } else { "not-contiguous" }),
                expected: format!("{:?} labels a non-empty contiguous range inside 1..=7462", var),
                observed: format!("{} values, min {:?} max {:?}", vals.len(), vals.first(), vals.last()),
            }
        };
    }
    let (size, entry) = match case.kind.split_once('.') {
        Some(x) => x,
        None => return Verdict::NotJudged("bad kind".into()),
    };
    let w = case.w32s();
    if AnyHand::size_of_name(size) != Some(w.len()) {
        return Verdict::NotJudged("size mismatch".into());
    }
    let cards = match super::c01::distinct_cards(&w) {
        Some(c) => c,
        None => return Verdict::NotJudged("not distinct real cards".into()),
    };
    let key = crate::oracle::poker::best_key(&cards);
    let ord = oracle().ord_of(key);
    let exp = format!("value {} name {} class {} (from the cards {})", ord, cat_text(key), class_text(key), show_words(&w));
    match guard(|| rank_of(entry, &w)) {
        Err(p) => Verdict::Violated { class: format!("panic:{}", case.kind), expected: exp, observed: format!("panic: {}", p) },
        Ok(None) => Verdict::NotJudged("unknown entry".into()),
        Ok(Some(h)) => {
            let mut problems = Vec::new();
            if h.value != ord {
                problems.push("wrong-value");
            }
            if super::variants::name_ident(h.name) != cat_text(key) {
                problems.push("category-does-not-describe-cards");
            }
            if super::variants::class_ident(h.class) != class_text(key) {
                problems.push("class-does-not-describe-cards");
            }
            if problems.is_empty() {
                Verdict::Holds
            } else {
                Verdict::Violated { class: format!("{}:{}", case.kind, problems.join("+")), expected: exp, observed: describe(&h) }
            }
        }
    }
}

fn hands_space(ctx: &Ctx, rep: &mut Report, n: usize, orders: &[Vec<usize>], lean: bool) {
    let o = oracle();
    let e = expect();
    let d = deck();
    let size = AnyHand::size_name(n);
    let mut parts = Vec::new();
    for a in 0..52usize {
        for b in a + 1..52 {
            if b + (n - 2) < 52 {
                parts.push((a, b));
            }
        }
    }
    let kind = monitor::kind_id(&format!("{}.hand_rank", size));
    let t0 = Instant::now();
    let accs = par_parts(parts.len(), |pi| {
        let (a, b) = parts[pi];
        let mut acc = Acc::new(310);
        let mut cs = vec![Card(0); n];
        let mut w = vec![0u32; n];
        let mut arr = vec![0u32; n];
        combos_prefix(52, n, &[a, b], &mut |idx| {
            for i in 0..n {
                cs[i] = d[idx[i]];
                w[i] = cs[i].word();
            }
            let key = crate::oracle::poker::best_key(&cs);
            let ord = o.ord_of(key);
            let (en, ec) = (e.name[ord as usize], e.class[ord as usize]);
            for ordr in orders {
                for i in 0..n {
                    arr[ordr[i]] = w[i];
                }
                let w64: Vec<u64> = arr.iter().map(|x| *x as u64).collect();
                monitor::beat(kind, &w64);
                acc.cases += 1;
                acc.calls += if lean { 1 } else { 2 };
                let ok = match guard(|| (rank_of("hand_rank", &arr), if lean { None.or(rank_of("hand_rank", &arr)) } else { rank_of("hand_rank_validated", &arr) })) {
                    Ok((Some(h1), Some(h2))) => h1.value == ord && Some(h1.name) == en && Some(h1.class) == ec && h1 == h2,
                    _ => false,
                };
                if !ok {
                    let mut found = false;
                    for entry in ["hand_rank", "hand_rank_validated"] {
                        if let Some(v) = confirm(judge, Case::w32(&format!("{}.{}", size, entry), &arr)) {
                            found = true;
                            acc.violate(v);
                        }
                    }
                    if !found {
                        super::unreproduced(&format!("C06 fast path mismatch on {:?} not reproduced", arr));
                    }
                }
            }
            if acc.samples.is_empty() && (pi as u64 + ctx.seed) % 211 == 0 {
                acc.samples.push(sample_json(&format!("{}.hand_rank", size), &show_words(&w), &format!("{:?} ; expected from the cards: {} {} {}", rank_of("hand_rank", &w), ord, cat_text(key), class_text(key))));
            }
        });
        acc
    });
    let mut acc = Acc::merged(accs);
    acc.nontrivial = acc.cases;
    rep.add_space(&format!("{}H x {} orders: hand_rank / hand_rank_validated", n, orders.len()), &acc, t0, "value, category and class text generated from the cards");
}

pub fn run(ctx: &Ctx, rep: &mut Report) {
    let e = expect();
    // (1) all 65,536 values
    {
        let t0 = Instant::now();
        let kind = monitor::kind_id("value");
        let accs = par_parts(64, |p| {
            let mut acc = Acc::new(1);
            for v in (p as u32 * 1024)..((p as u32 + 1) * 1024) {
                monitor::beat(kind, &[v as u64]);
                acc.cases += 1;
                acc.calls += 6;
                if (1..=7462).contains(&v) {
                    acc.nontrivial += 1;
                }
                if let Some(viol) = confirm(judge, Case::new("value", &[v as u64])) {
                    acc.violate(viol);
                }
            }
            acc
        });
        let acc = Acc::merged(accs);
        rep.add_space("all 65,536 values", &acc, t0, "HandRank::from, determine_name, determine_class, is_invalid, is_a_valid_hand_rank, default");
        let missing_names = (1..=7462).filter(|v| e.name[*v].is_none()).count();
        let missing_classes: Vec<&String> = (1..=7462).filter(|v| e.class[*v].is_none()).map(|v| &e.class_text[v]).collect();
        rep.hist_add("generated_class_texts_without_a_crate_variant", missing_classes.len() as u64);
        rep.hist_add("generated_category_texts_without_a_crate_variant", missing_names as u64);
        for v in [1u16, 166, 167, 322, 1599, 1600, 7462] {
            rep.sample(sample_json("HandRank::from", &v.to_string(), &format!("{:?}", HandRank::from(v))));
        }
    }
    // (2) every class variant labels a non-empty contiguous range
    {
        let t0 = Instant::now();
        let mut acc = Acc::new(1);
        let n = HandRankClass::iter().count();
        for i in 0..n {
            acc.cases += 1;
            acc.calls += 65536;
            acc.nontrivial += 1;
            if let Some(v) = confirm(judge, Case::new("class-range", &[i as u64])) {
                acc.violate(v);
            }
        }
        rep.hist_add("class_variants", n as u64);
        rep.hist_add("category_variants", HandRankName::iter().count() as u64);
        // the generated vocabulary must name 309 distinct classes
        let distinct: std::collections::BTreeSet<&String> = (1..=7462).map(|v| &e.class_text[v]).collect();
        rep.guard("the generated vocabulary names 309 distinct classes", distinct.len() == 309, format!("{}", distinct.len()));
        rep.add_space("every HandRankClass variant x all 65,536 values", &acc, t0, "each non-Invalid variant labels a non-empty contiguous value range; Invalid labels exactly the rest");
    }
    // (3) hands (the overflow-checked child of the QUICK tier stops here: values, variants and histories only)
    if ctx.child && !ctx.tier.thorough() && ctx.shard.is_none() {
        rep.rule = "distinct values and class variants (overflow-checked profile, quick tier: no hand spaces)".into();
        return;
    }
    let ident5: Vec<Vec<usize>> = vec![(0..5).collect(), (0..5).rev().collect()];
    hands_space(ctx, rep, 5, &ident5, false);
    hands_space(ctx, rep, 6, &[(0..6).rev().collect()], false);
    if ctx.tier.thorough() {
        hands_space(ctx, rep, 6, &[(0..6).collect()], false);
        hands_space(ctx, rep, 7, &[(0..7).collect(), (0..7).rev().collect()], false);
    } else {
        // quick: every seven-card hand once, through hand_rank() only
        hands_space(ctx, rep, 7, &[(0..7).collect()], true);
    }
    {
        let mut items: Vec<Case> = [0u64, 1, 2, 10, 11, 166, 167, 322, 323, 1599, 1600, 1609, 1610, 2467, 2468, 3325, 3326, 6185, 6186, 7462, 7463, 7464, 65535].iter().map(|v| Case::new("value", &[*v])).collect();
        let d = deck();
        for k in 0..12usize {
            for n in 5..=7usize {
                let w: Vec<u32> = (0..n).map(|i| d[(k * 4 + i * (k % 3 + 1)) % 52].word()).collect();
                if super::c01::distinct_cards(&w).is_some() {
                    items.push(Case::w32(&format!("{}.hand_rank", AnyHand::size_name(n)), &w));
                }
            }
        }
        super::history2(rep, judge, &items);
    }
    rep.rule = "distinct values, distinct class variants, distinct (hand, order) pairs; non-trivial = values 1..=7462 (each must name one specific class), every variant, every hand".into();
    rep.bound = if ctx.tier.thorough() { "values and variants complete; all five-, six- and seven-card hands in two slot orders, both entry points".into() } else { "values and variants complete; all five-card hands in two orders, all six-card hands reversed, all seven-card hands in canonical order (hand_rank only)".into() };
    rep.assume("expected Debug text is generated from the crate's published vocabulary (Four{Plural}, {Plural}Over{Plural}, {Singular}HighFlush, {Plural}And{Plural}, PairOf{Plural}, {Singular}High, RoyalFlush, ...)");
}
