//! C07 - hand ranks form a lawful total order in which stronger hands are greater.
//!
//! Space: all 65,536 x 65,536 ordered pairs of converted values, in two passes:
//!   pass 1 computes below(a) = #{b : cmp(b, a) == Less};
//!   pass 2 checks on every pair that cmp(a, b) == below(a).cmp(below(b)) - an integer key reproducing the
//!   comparison, which settles transitivity and antisymmetry over ALL triples without enumerating them - that
//!   partial_cmp, <, <=, >, >= agree with cmp, that cmp == Equal exactly when a == b, and the two directional clauses.
//! Plus all adjacent value pairs for the derived order of the category and class enumerations.
//! The check does not prescribe HOW two distinct invalid ranks are ordered, only that the order is lawful.
use super::{confirm, oracle, sample_json, Ctx};
use crate::engine::enumerate::par_parts;
use crate::engine::evidence::{Acc, Case, Report, Verdict};
use crate::engine::monitor::{self, guard};
use crate::oracle::poker::{cat_text, class_text};
use ckc_rs::hand_rank::{HandRank, HandRankClass, HandRankName};
use std::cmp::Ordering;
use std::sync::OnceLock;
use std::time::Instant;

static BELOW: OnceLock<Vec<u32>> = OnceLock::new();

fn ranks() -> Vec<HandRank> {
    (0..=65535u16).map(HandRank::from).collect()
}

fn below() -> &'static Vec<u32> {
    BELOW.get_or_init(|| {
        let r = ranks();
        let parts = par_parts(256, |p| {
            let mut out = Vec::with_capacity(256);
            for a in p * 256..(p + 1) * 256 {
                monitor::tick();
                let ra = r[a];
                let mut n = 0u32;
                for rb in r.iter() {
                    if rb.cmp(&ra) == Ordering::Less {
                        n += 1;
                    }
                }
                out.push(n);
            }
            out
        });
        parts.into_iter().flatten().collect()
    })
}

static CLASS_INDEX: OnceLock<Vec<usize>> = OnceLock::new();
/// index (0..309) of the class of value v in strength order, from the oracle's generated class texts
fn class_index(v: u16) -> usize {
    CLASS_INDEX.get_or_init(|| {
        let o = oracle();
        let mut idx = vec![usize::MAX; 7463];
        let mut cur = 0usize;
        for x in 1..=7462u16 {
            if x > 1 && class_text(o.key_of_ord(x).unwrap()) != class_text(o.key_of_ord(x - 1).unwrap()) {
                cur += 1;
            }
            idx[x as usize] = cur;
        }
        idx
    })[v as usize]
}

/// A HandRank whose fields were written one by one into storage pre-filled with `fill` (padding keeps the fill).
struct Stored {
    mem: Box<std::mem::MaybeUninit<[HandRank; 1]>>,
}
impl Stored {
    fn get(&self) -> &HandRank {
        // all three fields are initialised below; padding bytes carry no validity requirement
        unsafe { &(*self.mem.as_ptr())[0] }
    }
}
fn stored_with_fill(h: &HandRank, fill: u8) -> Stored {
    let mut mem: Box<std::mem::MaybeUninit<[HandRank; 1]>> = Box::new(std::mem::MaybeUninit::uninit());
    unsafe {
        std::ptr::write_bytes(mem.as_mut_ptr() as *mut u8, fill, std::mem::size_of::<HandRank>());
        let p = mem.as_mut_ptr() as *mut HandRank;
        std::ptr::addr_of_mut!((*p).value).write(h.value);
        std::ptr::addr_of_mut!((*p).name).write(h.name);
        std::ptr::addr_of_mut!((*p).class).write(h.class);
    }
    Stored { mem }
}

fn valid(v: u16) -> bool {
    (1..=7462).contains(&v)
}

/// Case kinds: "pair" [a, b]; "adjacent" [v] (the enumerations at v and v + 1); "invalid-greatest" [v].
pub fn judge(case: &Case) -> Verdict {
    match case.kind.as_str() {
        "pair" => {
            if case.words.len() != 2 || case.words.iter().any(|w| *w > 65535) {
                return Verdict::NotJudged("two 16-bit values".into());
            }
            let (a, b) = (case.words[0] as u16, case.words[1] as u16);
            let bl = below();
            let r = guard(|| {
                let (ra, rb) = (HandRank::from(a), HandRank::from(b));
                (ra.cmp(&rb), ra.partial_cmp(&rb), ra < rb, ra <= rb, ra > rb, ra >= rb, ra == rb)
            });
            let (c, pc, lt, le, gt, ge, eq) = match r {
                Err(p) => return Verdict::Violated { class: "panic:pair".into(), expected: "a comparison result".into(), observed: format!("panic: {}", p) },
                Ok(x) => x,
            };
            let what = format!("from({}) vs from({})", a, b);
            let kindness = match (valid(a), valid(b)) {
                (true, true) => "both-valid",
                (false, false) => "both-invalid",
                _ => "valid-vs-invalid",
            };
            if pc != Some(c) {
                return Verdict::Violated { class: format!("partial_cmp-disagrees:{}", kindness), expected: format!("partial_cmp == Some({:?}) for {}", c, what), observed: format!("{:?}", pc) };
            }
            if lt != (c == Ordering::Less) || le != (c != Ordering::Greater) || gt != (c == Ordering::Greater) || ge != (c != Ordering::Less) {
                return Verdict::Violated { class: format!("operators-disagree:{}", kindness), expected: format!("< <= > >= follow cmp == {:?} for {}", c, what), observed: format!("< {} <= {} > {} >= {}", lt, le, gt, ge) };
            }
            if (c == Ordering::Equal) != eq {
                return Verdict::Violated {
                    class: format!("{}:{}", if eq { "eq-but-cmp-not-equal" } else { "cmp-equal-but-not-eq" }, kindness),
                    expected: format!("cmp == Equal exactly when the ranks are equal, for {}", what),
                    observed: format!("cmp {:?}, == {}", c, eq),
                };
            }
            if valid(a) && valid(b) {
                let exp = b.cmp(&a); // lower value = stronger = greater
                if c != exp {
                    return Verdict::Violated { class: "direction:both-valid".into(), expected: format!("{:?} for {} (lower value is stronger)", exp, what), observed: format!("{:?}", c) };
                }
            }
            if !valid(a) && valid(b) && c != Ordering::Less {
                return Verdict::Violated { class: "direction:invalid-not-below-valid".into(), expected: format!("Less for {}", what), observed: format!("{:?}", c) };
            }
            if valid(a) && !valid(b) && c != Ordering::Greater {
                return Verdict::Violated { class: "direction:valid-not-above-invalid".into(), expected: format!("Greater for {}", what), observed: format!("{:?}", c) };
            }
            let key = bl[a as usize].cmp(&bl[b as usize]);
            if c != key {
                return Verdict::Violated {
                    class: format!("not-a-total-order:{}", kindness),
                    expected: format!("cmp agrees with the integer key below(x) = #{{y : y < x}}: {:?} for {} (below {} vs {})", key, what, bl[a as usize], bl[b as usize]),
                    observed: format!("{:?}", c),
                };
            }
            Verdict::Holds
        }
        "adjacent" => {
            let v = match case.words.first() {
                Some(v) if (1..7462).contains(v) => *v as u16,
                _ => return Verdict::NotJudged("v in 1..7462".into()),
            };
            let o = oracle();
            let (k1, k2) = (o.key_of_ord(v).unwrap(), o.key_of_ord(v + 1).unwrap());
            let r = guard(|| {
                let (a, b) = (HandRank::from(v), HandRank::from(v + 1));
                (a.name.cmp(&b.name), a.class.cmp(&b.class))
            });
            let (cn, cc) = match r {
                Err(p) => return Verdict::Violated { class: "panic:adjacent".into(), expected: "orderings".into(), observed: format!("panic: {}", p) },
                Ok(x) => x,
            };
            let en = if cat_text(k1) != cat_text(k2) { Ordering::Less } else { Ordering::Equal };
            let ec = if class_text(k1) != class_text(k2) { Ordering::Less } else { Ordering::Equal };
            if cn != en {
                return Verdict::Violated { class: "category-enum-order".into(), expected: format!("name({}) {:?} name({}) (strongest first, strict exactly at a category change)", v, en, v + 1), observed: format!("{:?}", cn) };
            }
            if cc != ec {
                return Verdict::Violated { class: "class-enum-order".into(), expected: format!("class({}) {:?} class({}) (strongest first, strict exactly at a class change: {} -> {})", v, ec, v + 1, class_text(k1), class_text(k2)), observed: format!("{:?}", cc) };
            }
            Verdict::Holds
        }
        "enum-pair" => {
            // derived order of the category / class enumerations on ANY two values (0 and 7463 stand for Invalid)
            if case.words.len() != 2 || case.words.iter().any(|w| *w > 7463) {
                return Verdict::NotJudged("two values in 0..=7463".into());
            }
            let (v, w) = (case.words[0] as u16, case.words[1] as u16);
            let o = oracle();
            // position of the class / category in strength order, Invalid last
            let pos = |x: u16| -> (usize, usize) {
                match o.key_of_ord(x) {
                    Some(k) => (crate::oracle::poker::key_cat(k) as usize, class_index(x)),
                    None => (9, usize::MAX),
                }
            };
            let (pv, pw) = (pos(v), pos(w));
            let r = guard(|| {
                let (a, b) = (HandRank::from(v), HandRank::from(w));
                (a.name.cmp(&b.name), a.name.partial_cmp(&b.name), a.name < b.name, a.name <= b.name, a.name > b.name, a.name >= b.name, a.name == b.name, a.class.cmp(&b.class), a.class.partial_cmp(&b.class), a.class < b.class, a.class <= b.class, a.class > b.class, a.class >= b.class, a.class == b.class)
            });
            let t = match r {
                Err(p) => return Verdict::Violated { class: "panic:enum-pair".into(), expected: "orderings".into(), observed: format!("panic: {}", p) },
                Ok(t) => t,
            };
            let en = pv.0.cmp(&pw.0);
            let ec = pv.1.cmp(&pw.1);
            let consistent = |c: Ordering, pc: Option<Ordering>, lt: bool, le: bool, gt: bool, ge: bool, eq: bool| pc == Some(c) && lt == (c == Ordering::Less) && le == (c != Ordering::Greater) && gt == (c == Ordering::Greater) && ge == (c != Ordering::Less) && eq == (c == Ordering::Equal);
            if t.0 != en || !consistent(t.0, t.1, t.2, t.3, t.4, t.5, t.6) {
                return Verdict::Violated { class: "category-enum-order:any-pair".into(), expected: format!("name({}) {:?} name({}) with cmp, partial_cmp and the operators agreeing (strongest first, Invalid last)", v, en, w), observed: format!("cmp {:?} partial_cmp {:?} < {} <= {} > {} >= {} == {}", t.0, t.1, t.2, t.3, t.4, t.5, t.6) };
            }
            if t.7 != ec || !consistent(t.7, t.8, t.9, t.10, t.11, t.12, t.13) {
                return Verdict::Violated { class: "class-enum-order:any-pair".into(), expected: format!("class({}) {:?} class({}) with cmp, partial_cmp and the operators agreeing (strongest first, Invalid last)", v, ec, w), observed: format!("cmp {:?} partial_cmp {:?} < {} <= {} > {} >= {} == {}", t.7, t.8, t.9, t.10, t.11, t.12, t.13) };
            }
            Verdict::Holds
        }
        "equal-in-dirty-storage" => {
            // the same rank stored three ways: a fresh local, storage pre-filled with 0xFF bytes, storage pre-filled with
            // zero bytes (fields written one by one, so padding keeps the fill) - comparison must not see the difference
            let v = match case.words.first() {
                Some(v) if *v <= 65535 => *v as u16,
                _ => return Verdict::NotJudged("a 16-bit value".into()),
            };
            match guard(|| {
                let fresh = HandRank::from(v);
                let ff = stored_with_fill(&fresh, 0xFF);
                let zz = stored_with_fill(&fresh, 0x00);
                let (a, b) = (ff.get(), zz.get());
                (a.cmp(b), b.cmp(a), a == b, a.cmp(&fresh), fresh.cmp(b), a < b, a > b, a <= b, a >= b, a.partial_cmp(b))
            }) {
                Err(p) => Verdict::Violated { class: "panic:equal-in-dirty-storage".into(), expected: "Equal".into(), observed: format!("panic: {}", p) },
                Ok(t) => {
                    let ok = t.0 == Ordering::Equal && t.1 == Ordering::Equal && t.2 && t.3 == Ordering::Equal && t.4 == Ordering::Equal && !t.5 && !t.6 && t.7 && t.8 && t.9 == Some(Ordering::Equal);
                    if ok {
                        Verdict::Holds
                    } else {
                        Verdict::Violated { class: "equal-ranks-compare-unequal:depends-on-storage-history".into(), expected: format!("from({}) compares Equal to itself wherever the two copies are stored", v), observed: format!("cmp {:?}/{:?}, == {}, vs fresh {:?}/{:?}, < {} > {} <= {} >= {}, partial_cmp {:?}", t.0, t.1, t.2, t.3, t.4, t.5, t.6, t.7, t.8, t.9) }
                    }
                }
            }
        }
        "invalid-greatest" => {
            let v = match case.words.first() {
                Some(v) if (1..=7462).contains(v) => *v as u16,
                _ => return Verdict::NotJudged("v in 1..=7462".into()),
            };
            match guard(|| {
                let a = HandRank::from(v);
                a.name < HandRankName::Invalid && a.class < HandRankClass::Invalid
            }) {
                Ok(true) => Verdict::Holds,
                other => Verdict::Violated { class: "invalid-not-last-in-enum-order".into(), expected: format!("name({}) and class({}) sort before Invalid", v, v), observed: format!("{:?}", other) },
            }
        }
        _ => Verdict::NotJudged("unknown kind".into()),
    }
}

pub fn run(_ctx: &Ctx, rep: &mut Report) {
    let r = ranks();
    // pass 1
    let t0 = Instant::now();
    let bl = below();
    let mut distinct_keys: Vec<u32> = bl.clone();
    distinct_keys.sort_unstable();
    distinct_keys.dedup();
    rep.hist_add("distinct_integer_keys", distinct_keys.len() as u64);
    let pass1 = Acc { cases: 65536, calls: 65536u64 * 65536, nontrivial: 0, ..Acc::new(1) };
    rep.add_space("pass 1: below(a) for every a (65,536^2 comparisons)", &pass1, t0, "builds the integer key from the run itself");
    // pass 2
    let t0 = Instant::now();
    let kind = monitor::kind_id("pair");
    let accs = par_parts(1024, |p| {
        let mut acc = Acc::new(4);
        for a in p * 64..(p + 1) * 64 {
            monitor::beat(kind, &[a as u64, 0]);
            let ra = r[a];
            let ka = bl[a];
            let va = valid(a as u16);
            let res = guard(|| {
                let mut bad: Vec<u32> = Vec::new();
                let mut eqs = 0u64;
                for b in 0..65536usize {
                    let rb = r[b];
                    let c = ra.cmp(&rb);
                    let mut ok = c == ka.cmp(&bl[b]);
                    ok &= ra.partial_cmp(&rb) == Some(c);
                    ok &= (ra < rb) == (c == Ordering::Less) && (ra <= rb) == (c != Ordering::Greater) && (ra > rb) == (c == Ordering::Greater) && (ra >= rb) == (c != Ordering::Less);
                    ok &= (c == Ordering::Equal) == (ra == rb);
                    let vb = valid(b as u16);
                    if va && vb {
                        ok &= c == b.cmp(&a);
                    } else if !va && vb {
                        ok &= c == Ordering::Less;
                    } else if va && !vb {
                        ok &= c == Ordering::Greater;
                    }
                    if c == Ordering::Equal {
                        eqs += 1;
                    }
                    if !ok && bad.len() < 3 {
                        bad.push(b as u32);
                    }
                    if !ok {
                        eqs += 1 << 32;
                    }
                }
                (bad, eqs)
            });
            acc.cases += 65536;
            acc.calls += 65536 * 7;
            match res {
                Ok((bad, eqs)) => {
                    acc.hist[0] += eqs & 0xFFFF_FFFF;
                    let nbad = eqs >> 32;
                    if nbad > 0 {
                        for b in bad {
                            match confirm(judge, Case::new("pair", &[a as u64, b as u64])) {
                                Some(v) => acc.violate(v),
                                None => super::unreproduced("C07 fast path mismatch not reproduced"),
                            }
                        }
                        acc.viol_count += nbad.saturating_sub(3.min(nbad));
                    }
                }
                Err(_) => {
                    for b in 0..65536u64 {
                        if let Some(v) = confirm(judge, Case::new("pair", &[a as u64, b])) {
                            acc.violate(v);
                            break;
                        }
                    }
                }
            }
            if va {
                acc.nontrivial += 65536;
            } else {
                acc.nontrivial += 7462;
            }
        }
        acc
    });
    let acc = Acc::merged(accs);
    rep.hist_add("ordered_pairs_comparing_equal", acc.hist[0]);
    rep.add_space("pass 2: every ordered pair of the 65,536 converted values", &acc, t0, "cmp vs integer key, partial_cmp, four operators, Equal <=> ==, direction clauses");
    rep.guard("pass 2 covered 2^32 pairs", acc.cases == 1u64 << 32, format!("{}", acc.cases));
    // enumerations
    let t0 = Instant::now();
    let mut acc = Acc::new(1);
    let mut strict_name = 0;
    let mut strict_class = 0;
    for v in 1..7462u64 {
        acc.cases += 1;
        acc.calls += 2;
        match confirm(judge, Case::new("adjacent", &[v])) {
            Some(x) => acc.violate(x),
            None => {
                let (a, b) = (HandRank::from(v as u16), HandRank::from(v as u16 + 1));
                if a.name != b.name {
                    strict_name += 1;
                }
                if a.class != b.class {
                    strict_class += 1;
                    acc.nontrivial += 1;
                }
            }
        }
    }
    for v in 1..=7462u64 {
        acc.cases += 1;
        acc.calls += 2;
        if let Some(x) = confirm(judge, Case::new("invalid-greatest", &[v])) {
            acc.violate(x);
        }
    }
    // equal ranks whose storage has a different history (padding bytes differ)
    {
        let t0 = Instant::now();
        let mut acc = Acc::new(1);
        for v in 0..=65535u64 {
            acc.cases += 1;
            acc.calls += 10;
            acc.nontrivial += 1;
            if let Some(x) = confirm(judge, Case::new("equal-in-dirty-storage", &[v])) {
                acc.violate(x);
            }
        }
        rep.add_space("every value: the rank compared with a copy of itself stored in 0xFF-filled, zero-filled and fresh storage", &acc, t0, "cmp, ==, operators must not depend on padding bytes / where the rank lives");
    }
    // all pairs of values for the derived enum orders (a hand-written, non-transitive comparator passes adjacent pairs)
    {
        let t0 = Instant::now();
        let kind = monitor::kind_id("enum-pair");
        let accs = par_parts(7464, |v| {
            let mut acc = Acc::new(1);
            monitor::beat(kind, &[v as u64, 0]);
            let a = HandRank::from(v as u16);
            let pv = if valid(v as u16) { class_index(v as u16) } else { usize::MAX };
            let cat_of = |x: u16| -> u8 { oracle().key_of_ord(x).map(crate::oracle::poker::key_cat).unwrap_or(9) };
            let cv = cat_of(v as u16);
            let r = guard(|| {
                let mut bad = Vec::new();
                for w in 0..=7463u16 {
                    let b = HandRank::from(w);
                    let pw = if valid(w) { class_index(w) } else { usize::MAX };
                    let ec = pv.cmp(&pw);
                    let c = a.class.cmp(&b.class);
                    let n = a.name.cmp(&b.name);
                    let ok = c == ec && a.class.partial_cmp(&b.class) == Some(c) && (a.class < b.class) == (c == Ordering::Less) && (a.class > b.class) == (c == Ordering::Greater) && (a.class == b.class) == (c == Ordering::Equal)
                        && n == cv.cmp(&cat_of(w)) && a.name.partial_cmp(&b.name) == Some(n) && (a.name < b.name) == (n == Ordering::Less) && (a.name > b.name) == (n == Ordering::Greater);
                    if !ok && bad.len() < 2 {
                        bad.push(w);
                    }
                }
                bad
            });
            acc.cases += 7464;
            acc.calls += 7464 * 6;
            acc.nontrivial += 7464;
            match r {
                Ok(bad) if bad.is_empty() => {}
                Ok(bad) => {
                    for w in bad {
                        match confirm(judge, Case::new("enum-pair", &[v as u64, w as u64])) {
                            Some(x) => acc.violate(x),
                            None => super::unreproduced("C07 enum-pair mismatch not reproduced"),
                        }
                    }
                }
                Err(_) => {
                    if let Some(x) = confirm(judge, Case::new("enum-pair", &[v as u64, 0])) {
                        acc.violate(x);
                    }
                }
            }
            acc
        });
        let acc2 = Acc::merged(accs);
        rep.add_space("all 7,464 x 7,464 value pairs: derived order of the class and category enumerations (cmp, partial_cmp, operators)", &acc2, t0, "consistent with strength for ANY two classes, not only adjacent ones");
    }
    rep.hist_add("adjacent_pairs_where_category_changes", strict_name);
    rep.hist_add("adjacent_pairs_where_class_changes", strict_class);
    if acc.viol_count == 0 {
        rep.guard("category changes 8 times, class 308 times along 1..=7462", strict_name == 8 && strict_class == 308, format!("{} {}", strict_name, strict_class));
    }
    rep.add_space("adjacent values 1..=7462: derived order of category and class enumerations", &acc, t0, "non-decreasing, strict exactly at an oracle category / class change; Invalid last");
    {
        let vals = [0u64, 1, 2, 166, 167, 3325, 7461, 7462, 7463, 7464, 65535];
        let mut items = Vec::new();
        for a in vals {
            for b in vals {
                items.push(Case::new("pair", &[a, b]));
            }
        }
        super::history2(rep, judge, &items);
    }
    rep.sample(sample_json("pair", "from(1) vs from(2)", &format!("{:?}", HandRank::from(1).cmp(&HandRank::from(2)))));
    rep.sample(sample_json("pair", "from(0) vs from(7463)", &format!("cmp {:?}, == {}", HandRank::from(0).cmp(&HandRank::from(7463)), HandRank::from(0) == HandRank::from(7463))));
    rep.sample(sample_json("pair", "from(0) vs from(7462)", &format!("{:?}", HandRank::from(0).cmp(&HandRank::from(7462)))));
    rep.rule = "distinct ordered pairs (a, b) of 16-bit values; non-trivial = pairs involving at least one valid rank (the order among invalid ranks is only required to be lawful); for the enumerations, adjacent values where the class changes".into();
    rep.bound = "none: all 2^32 ordered pairs; transitivity over all triples follows from agreement with an integer key".into();
    rep.assume("a comparison that agrees on every pair with the order of an integer key is transitive and antisymmetric up to key equality; together with Equal <=> == it is a total order consistent with equality");
}
