//! C16 - two-card hand from a bit-set: succeeds exactly for two card bits, round-trips.
//!
//! Spaces: 0; all 64 x 64 one- and two-bit values; all C(64,3) three-bit values; for every population count
//! p = 0..=64 every cyclic run of p bits, every "run with one hole / one extra bit" neighbour and the complements
//! (a deterministic replacement for "random values of every population count"); all C(64,4) four-bit values and
//! their complements.
//! Oracle: popcount rule + deck order.
use super::{confirm, sample_json, Ctx};
use crate::engine::enumerate::par_parts;
use crate::engine::evidence::{Acc, Case, Report, Verdict};
use crate::engine::monitor::{self, guard};
use crate::oracle::cards::{show_words, Card};
use ckc_rs::cards::binary_card::{BinaryCard, BC64};
use ckc_rs::cards::two::Two;
use ckc_rs::HandError;
use std::time::Instant;

#[derive(Debug, PartialEq, Clone)]
enum Outcome {
    Ok([u32; 2]),
    NotEnough,
    TooMany,
    InvalidFormat,
    Other(String),
}

fn model(b: u64) -> Outcome {
    match b.count_ones() {
        0 | 1 => Outcome::NotEnough,
        2 => {
            let hi = 63 - b.leading_zeros();
            let lo = b.trailing_zeros();
            if hi < 52 {
                // deck order: the higher bit is the earlier deck card
                Outcome::Ok([Card::from_deck_index(51 - hi as usize).word(), Card::from_deck_index(51 - lo as usize).word()])
            } else {
                Outcome::InvalidFormat
            }
        }
        _ => Outcome::TooMany,
    }
}

fn observe(b: u64) -> (Outcome, Option<u64>) {
    match Two::try_from(b) {
        Ok(t) => (Outcome::Ok(t.to_arr()), Some(BinaryCard::from_two(t))),
        Err(HandError::NotEnoughCards) => (Outcome::NotEnough, None),
        Err(HandError::TooManyCards) => (Outcome::TooMany, None),
        Err(HandError::InvalidBinaryFormat) => (Outcome::InvalidFormat, None),
        Err(e) => (Outcome::Other(format!("{:?}", e)), None),
    }
}

fn show(o: &Outcome) -> String {
    match o {
        Outcome::Ok(a) => format!("Ok([{}])", show_words(a)),
        x => format!("{:?}", x),
    }
}

/// Case kind: "try_from" [64-bit value].
pub fn judge(case: &Case) -> Verdict {
    if case.kind == "history" {
        // a sequence of conversions: every step must answer as it would alone
        for (i, b) in case.words.iter().enumerate() {
            let exp = model(*b);
            match guard(|| observe(*b)) {
                Err(p) => return Verdict::Violated { class: "panic:history".into(), expected: show(&exp), observed: format!("step {}: panic: {}", i + 1, p) },
                Ok((got, back)) => {
                    if got != exp || back.map(|x| x != *b).unwrap_or(false) {
                        return Verdict::Violated {
                            class: if i == 0 { "try_from:first-call-wrong".into() } else { "history:answer-depends-on-the-previous-calls".into() },
                            expected: format!("{} for bit-set {:#x} also after converting {:x?}", show(&exp), b, &case.words[..i]),
                            observed: format!("step {}: {}", i + 1, show(&got)),
                        };
                    }
                }
            }
        }
        return Verdict::Holds;
    }
    if case.kind != "try_from" {
        return Verdict::NotJudged("unknown kind".into());
    }
    let b = case.words.first().copied().unwrap_or(0);
    let exp = model(b);
    match guard(|| observe(b)) {
        Err(p) => Verdict::Violated { class: "panic:try_from".into(), expected: show(&exp), observed: format!("panic: {}", p) },
        Ok((got, back)) => {
            if got != exp {
                return Verdict::Violated { class: if matches!((&exp, &got), (Outcome::Ok(_), Outcome::Ok(_))) { "try_from:wrong-cards-or-not-deck-order".to_string() } else { format!("try_from:expected-{}-got-{}", kindname(&exp), kindname(&got)) }, expected: format!("{} for bit-set {:#x} ({} bits)", show(&exp), b, b.count_ones()), observed: show(&got) };
            }
            if let Some(bb) = back {
                if bb != b {
                    return Verdict::Violated { class: "round-trip:set-hand-set".into(), expected: format!("{:#x}", b), observed: format!("{:#x}", bb) };
                }
            }
            Verdict::Holds
        }
    }
}
fn kindname(o: &Outcome) -> &'static str {
    match o {
        Outcome::Ok(_) => "Ok",
        Outcome::NotEnough => "NotEnoughCards",
        Outcome::TooMany => "TooManyCards",
        Outcome::InvalidFormat => "InvalidBinaryFormat",
        Outcome::Other(_) => "OtherError",
    }
}

fn check(acc: &mut Acc, b: u64) {
    acc.cases += 1;
    acc.calls += 1;
    let exp = model(b);
    let idx = match exp {
        Outcome::Ok(_) => 0,
        Outcome::NotEnough => 1,
        Outcome::TooMany => 2,
        _ => 3,
    };
    acc.hist[idx] += 1;
    if b.count_ones() == 2 {
        acc.nontrivial += 1;
    }
    let ok = match guard(|| observe(b)) {
        Ok((got, back)) => got == exp && back.map(|x| x == b).unwrap_or(true),
        Err(_) => false,
    };
    if !ok {
        match confirm(judge, Case::new("try_from", &[b])) {
            Some(v) => acc.violate(v),
            None => super::unreproduced("C16 mismatch not reproduced"),
        }
    }
}

pub fn run(ctx: &Ctx, rep: &mut Report) {
    let names = ["expected_Ok", "expected_NotEnoughCards", "expected_TooManyCards", "expected_InvalidBinaryFormat"];
    {
        let t0 = Instant::now();
        let mut acc = Acc::new(4);
        check(&mut acc, 0);
        for i in 0..64 {
            for j in 0..64 {
                check(&mut acc, 1u64 << i | 1u64 << j);
            }
        }
        rep.add_space("0 and all 64 x 64 one- and two-bit values", &acc, t0, "");
        rep.hist_named("one/two bits:", &names, &acc.hist);
        rep.guard("all four outcome kinds expected within the one/two-bit space plus three bits", acc.hist[0] > 0 && acc.hist[1] > 0 && acc.hist[3] > 0, format!("{:?}", acc.hist));
    }
    {
        let t0 = Instant::now();
        let mut acc = Acc::new(4);
        for i in 0..64 {
            for j in 0..i {
                for k in 0..j {
                    check(&mut acc, 1u64 << i | 1u64 << j | 1u64 << k);
                }
            }
        }
        rep.add_space("all C(64,3) three-bit values", &acc, t0, "");
        rep.guard("three-bit values all expect TooManyCards", acc.hist[2] == acc.cases, format!("{:?}", acc.hist));
    }
    {
        let t0 = Instant::now();
        let mut acc = Acc::new(4);
        for p in 0..=64u32 {
            let run: u64 = if p == 64 { u64::MAX } else { (1u64 << p) - 1 };
            for rot in 0..64 {
                let b = run.rotate_left(rot);
                check(&mut acc, b);
                check(&mut acc, !b);
                // one hole / one extra bit next to the run
                for k in 0..64 {
                    check(&mut acc, b ^ (1u64 << k));
                }
            }
        }
        rep.add_space("every cyclic run of p = 0..=64 bits, its complement and all its one-bit neighbours", &acc, t0, "every population count is met");
        rep.hist_named("runs:", &names, &acc.hist);
    }
    {
        let _ = ctx;
        let t0 = Instant::now();
        let accs = par_parts(64, |i| {
            let mut acc = Acc::new(4);
            for j in 0..i {
                for k in 0..j {
                    for l in 0..k {
                        let b = 1u64 << i | 1u64 << j | 1u64 << k | 1u64 << l;
                        check(&mut acc, b);
                        check(&mut acc, !b);
                    }
                }
            }
            acc
        });
        let acc = Acc::merged(accs);
        rep.add_space("all C(64,4) four-bit values and their complements", &acc, t0, "");
    }
    {
        let items: Vec<Case> = [0u64, 1, 3, (1 << 51) | 1, (1 << 52) | 1, (1 << 63) | (1 << 52), 7, u64::MAX, (1 << 20) | (1 << 19), !((1u64 << 52) - 1) | 3].iter().map(|b| Case::new("try_from", &[*b])).collect();
        super::history2(rep, judge, &items);
    }
    // call sequences: all ordered pairs and triples over the 64 sets of a 6-bit universe (two low card bits, two high
    // card bits, two non-card bits) - a memo of an earlier conversion must not leak into a later one
    {
        let t0 = Instant::now();
        let uni = [0u32, 1, 50, 51, 52, 63];
        let vals: Vec<u64> = (0..64u64).map(|c| (0..6).filter(|i| c >> i & 1 == 1).fold(0u64, |m, i| m | 1u64 << uni[i])).collect();
        let accs = par_parts(1, |_| {
            let mut acc = Acc::new(4);
            for a in &vals {
                for b in &vals {
                    for c in vals.iter().map(Some).chain(std::iter::once(None)) {
                        let mut seq = vec![*a, *b];
                        if let Some(c) = c {
                            seq.push(*c);
                        }
                        acc.cases += 1;
                        acc.calls += seq.len() as u64;
                        if seq.iter().any(|v| v.count_ones() == 2) {
                            acc.nontrivial += 1;
                        }
                        if let Verdict::Violated { .. } = judge(&Case::new("history", &seq)) {
                            match confirm(judge, Case::new("history", &seq)) {
                                Some(v) => acc.violate(v),
                                None => super::unreproduced(&format!("C16 history {:x?} not reproduced", seq)),
                            }
                        }
                    }
                }
            }
            acc
        });
        let acc = Acc::merged(accs);
        rep.add_space("histories: every sequence of two and of three conversions over the 64 sets of a 6-bit universe", &acc, t0, "single-threaded; each step judged as if alone");
    }
    rep.sample(sample_json("try_from", "bits 51 and 0", &show(&observe(1 << 51 | 1).0)));
    rep.sample(sample_json("try_from", "bits 52 and 0", &show(&observe(1 << 52 | 1).0)));
    rep.sample(sample_json("try_from", "bit 7 only", &show(&observe(1 << 7).0)));
    rep.rule = "distinct 64-bit values; non-trivial = values with exactly two bits set (the only ones for which success, card order and the round trip are at stake)".into();
    rep.bound = "complete for population count <= 4 and >= 60; structured families for every other population count".into();
}
